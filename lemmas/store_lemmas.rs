// ------------------------------ storage invariants (verified, not trusted) ------------------------------
spec fn loc_ok(w: &World, k: Bytes, e: KeyDirEntry) -> bool {
    &&& w.data.contains_key(e.fileid)
    &&& rec_at(w.data[e.fileid].recs, e.pos) matches Some(r) && r.key == k && r.val is Some && r.len == e.len && r.tstamp == e.tstamp
}
/// Index: every key directory entry names a complete value record of that key
spec fn index_ok(kd: Map<Bytes, KeyDirEntry>, w: &World) -> bool {
    forall |k: Bytes| kd.contains_key(k) ==> loc_ok(w, k, #[trigger] kd[k])
}
spec fn val_at(w: &World, e: KeyDirEntry) -> Bytes {
    (rec_at(w.data[e.fileid].recs, e.pos)->0).val->0
}
/// the map the store currently implements
spec fn model(kd: Map<Bytes, KeyDirEntry>, w: &World) -> Map<Bytes, Bytes> {
    Map::new(kd.dom(), |k: Bytes| val_at(w, kd[k]))
}

/// w2 has every data file of w1 with every record of w1 at the same place
spec fn world_extends(w1: &World, w2: &World) -> bool {
    forall |f: u64| #[trigger] w1.data.contains_key(f) ==> w2.data.contains_key(f)
        && (forall |p: u64| rec_at(w1.data[f].recs, p) is Some ==> #[trigger] rec_at(w2.data[f].recs, p) == rec_at(w1.data[f].recs, p))
}
proof fn lemma_index_mono(w1: &World, w2: &World, kd: Map<Bytes, KeyDirEntry>)
    requires world_extends(w1, w2), index_ok(kd, w1)
    ensures index_ok(kd, w2), model(kd, w2) == model(kd, w1)
{
    assert forall |k: Bytes| kd.contains_key(k) implies loc_ok(w2, k, #[trigger] kd[k]) by {
        let e = kd[k];
        assert(loc_ok(w1, k, e));
        assert(w1.data.contains_key(e.fileid));
        assert(rec_at(w2.data[e.fileid].recs, e.pos) == rec_at(w1.data[e.fileid].recs, e.pos));
    }
    assert(model(kd, w2) =~= model(kd, w1)) by {
        assert forall |k: Bytes| kd.contains_key(k) implies model(kd, w2)[k] == model(kd, w1)[k] by {
            let e = kd[k];
            assert(loc_ok(w1, k, e));
            assert(w1.data.contains_key(e.fileid));
            assert(rec_at(w2.data[e.fileid].recs, e.pos) == rec_at(w1.data[e.fileid].recs, e.pos));
        }
    }
}
/// appending one record to file f (everything else untouched) extends the world
proof fn lemma_append_extends(w1: &World, w2: &World, f: u64, r: Rec)
    requires world_wf(w1), w1.data.contains_key(f), r.pos == w1.data[f].size, r.len > 0,
             w2.data.dom() == w1.data.dom(),
             w2.data[f].recs == w1.data[f].recs.push(r),
             forall |i: u64| i != f && w1.data.contains_key(i) ==> #[trigger] w2.data[i] == w1.data[i],
    ensures world_extends(w1, w2),
            rec_at(w2.data[f].recs, r.pos) == Some(r),
            rec_at(w1.data[f].recs, r.pos) is None,
{
    let recs = w1.data[f].recs;
    assert(data_wf(w1.data[f]));
    lemma_rec_at_push(recs, r, r.pos);
    lemma_rec_at_bound(recs, w1.data[f].size as int, r.pos);
    assert forall |i: u64| #[trigger] w1.data.contains_key(i) implies w2.data.contains_key(i)
        && (forall |p: u64| rec_at(w1.data[i].recs, p) is Some ==> #[trigger] rec_at(w2.data[i].recs, p) == rec_at(w1.data[i].recs, p)) by {
        assert(w2.data.dom().contains(i));
        if i == f {
            assert forall |p: u64| rec_at(recs, p) is Some implies #[trigger] rec_at(w2.data[f].recs, p) == rec_at(recs, p) by {
                lemma_rec_at_append_keeps(recs, w1.data[f].size as int, r, p);
            }
        }
    }
}

proof fn lemma_world_extends_trans(w1: &World, w2: &World, w3: &World)
    requires world_extends(w1, w2), world_extends(w2, w3)
    ensures world_extends(w1, w3)
{
    assert forall |f: u64| #[trigger] w1.data.contains_key(f) implies w3.data.contains_key(f)
        && (forall |p: u64| rec_at(w1.data[f].recs, p) is Some ==> #[trigger] rec_at(w3.data[f].recs, p) == rec_at(w1.data[f].recs, p)) by {
        assert(w2.data.contains_key(f));
        assert forall |p: u64| rec_at(w1.data[f].recs, p) is Some implies #[trigger] rec_at(w3.data[f].recs, p) == rec_at(w1.data[f].recs, p) by {
            assert(rec_at(w2.data[f].recs, p) == rec_at(w1.data[f].recs, p));
            assert(rec_at(w3.data[f].recs, p) == rec_at(w2.data[f].recs, p));
        }
    }
}
proof fn lemma_same_records(w1: &World, w2: &World, kd: Map<Bytes, KeyDirEntry>)
    requires same_records(w1, w2), world_wf(w1), index_ok(kd, w1)
    ensures world_wf(w2), world_extends(w1, w2), index_ok(kd, w2), model(kd, w2) == model(kd, w1)
{
    lemma_same_records_wf(w1, w2);
    assert forall |f: u64| #[trigger] w1.data.contains_key(f) implies w2.data.contains_key(f)
        && (forall |p: u64| rec_at(w1.data[f].recs, p) is Some ==> #[trigger] rec_at(w2.data[f].recs, p) == rec_at(w1.data[f].recs, p)) by {
        assert(w2.data.dom().contains(f));
    }
    lemma_index_mono(w1, w2, kd);
}
// ---- accounting: ground truth over the records of a file --------------------------------------------
/// record r of file f is live iff the key directory points at it
spec fn is_live(kd: Map<Bytes, KeyDirEntry>, f: u64, r: Rec) -> bool {
    kd.contains_key(r.key) && kd[r.key].fileid == f && kd[r.key].pos == r.pos
}
spec fn live_n(kd: Map<Bytes, KeyDirEntry>, f: u64, recs: Seq<Rec>) -> nat
    decreases recs.len()
{
    if recs.len() == 0 { 0 } else { live_n(kd, f, recs.drop_last()) + (if is_live(kd, f, recs.last()) { 1nat } else { 0nat }) }
}
spec fn dead_n(kd: Map<Bytes, KeyDirEntry>, f: u64, recs: Seq<Rec>) -> nat
    decreases recs.len()
{
    if recs.len() == 0 { 0 } else { dead_n(kd, f, recs.drop_last()) + (if is_live(kd, f, recs.last()) { 0nat } else { 1nat }) }
}
spec fn dead_b(kd: Map<Bytes, KeyDirEntry>, f: u64, recs: Seq<Rec>) -> nat
    decreases recs.len()
{
    if recs.len() == 0 { 0 } else { dead_b(kd, f, recs.drop_last()) + (if is_live(kd, f, recs.last()) { 0nat } else { recs.last().len as nat }) }
}
spec fn stat_of(st: Map<u64, LogStatistics>, f: u64) -> LogStatistics {
    if st.contains_key(f) { st[f] } else { LogStatistics { live_keys: 0, dead_keys: 0, dead_bytes: 0 } }
}
/// the relation between one file's counters and ground truth, with offsets (pl, pd, pb):
/// exact:  live == live_n + pl,  dead + pd == dead_n,  dead_bytes + pb == dead_b
/// weak (what survives a failed operation and keeps later operations panic-free):
///         live >= live_n + pl,  live + dead + pd <= #records + pl,  dead_bytes + pb <= dead_b
spec fn stat_rel(s: LogStatistics, kd: Map<Bytes, KeyDirEntry>, f: u64, recs: Seq<Rec>, pl: nat, pd: nat, pb: nat, exact: bool) -> bool {
    if exact {
        s.live_keys == live_n(kd, f, recs) + pl && s.dead_keys + pd == dead_n(kd, f, recs) && s.dead_bytes + pb == dead_b(kd, f, recs)
    } else {
        s.live_keys >= live_n(kd, f, recs) + pl && s.live_keys + s.dead_keys + pd <= recs.len() + pl && s.dead_bytes + pb <= dead_b(kd, f, recs)
    }
}
/// Stats: every file's counters are related to ground truth; file `pf` with offsets (pl, pd, pb), all others with none
#[verifier::opaque]
spec fn stats_rel(st: Map<u64, LogStatistics>, kd: Map<Bytes, KeyDirEntry>, w: &World, pf: u64, pl: nat, pd: nat, pb: nat, exact: bool) -> bool {
    &&& forall |f: u64| #[trigger] st.contains_key(f) ==> w.data.contains_key(f)
    &&& forall |f: u64| #[trigger] w.data.contains_key(f) ==>
            stat_rel(stat_of(st, f), kd, f, w.data[f].recs, if f == pf { pl } else { 0 }, if f == pf { pd } else { 0 }, if f == pf { pb } else { 0 }, exact)
}
proof fn lemma_counts_bound(kd: Map<Bytes, KeyDirEntry>, f: u64, recs: Seq<Rec>, size: int)
    requires recs_wf(recs, size)
    ensures live_n(kd, f, recs) + dead_n(kd, f, recs) == recs.len(), dead_b(kd, f, recs) <= size
    decreases recs.len()
{
    if recs.len() > 0 { lemma_counts_bound(kd, f, recs.drop_last(), recs.last().pos as int); }
}
proof fn lemma_counts_push(kd: Map<Bytes, KeyDirEntry>, f: u64, recs: Seq<Rec>, r: Rec)
    ensures
        live_n(kd, f, recs.push(r)) == live_n(kd, f, recs) + (if is_live(kd, f, r) { 1nat } else { 0nat }),
        dead_n(kd, f, recs.push(r)) == dead_n(kd, f, recs) + (if is_live(kd, f, r) { 0nat } else { 1nat }),
        dead_b(kd, f, recs.push(r)) == dead_b(kd, f, recs) + (if is_live(kd, f, r) { 0nat } else { r.len as nat }),
{
    assert(recs.push(r).drop_last() =~= recs);
}
/// Changing the key directory at one key k (insert / remove) so that k no longer points into `recs`
/// turns exactly the record k pointed at (if it is in `recs`) from live to dead.
proof fn lemma_kd_change(kd: Map<Bytes, KeyDirEntry>, kd2: Map<Bytes, KeyDirEntry>, f: u64, recs: Seq<Rec>, size: int, k: Bytes)
    requires
        recs_wf(recs, size),
        forall |j: Bytes| j != k ==> #[trigger] kd2.contains_key(j) == kd.contains_key(j),
        forall |j: Bytes| j != k && kd.contains_key(j) ==> #[trigger] kd2[j] == kd[j],
        !(kd2.contains_key(k) && kd2[k].fileid == f && rec_at(recs, kd2[k].pos) is Some),
        (kd.contains_key(k) && kd[k].fileid == f) ==> (rec_at(recs, kd[k].pos) matches Some(r0) ==> r0.key == k),
    ensures ({
        let hit = kd.contains_key(k) && kd[k].fileid == f && rec_at(recs, kd[k].pos) is Some;
        let d: nat = if hit { 1 } else { 0 };
        let b: nat = if hit { (rec_at(recs, kd[k].pos)->0).len as nat } else { 0 };
        &&& live_n(kd2, f, recs) + d == live_n(kd, f, recs)
        &&& dead_n(kd2, f, recs) == dead_n(kd, f, recs) + d
        &&& dead_b(kd2, f, recs) == dead_b(kd, f, recs) + b
    })
    decreases recs.len()
{
    if recs.len() > 0 {
        let r = recs.last();
        let rest = recs.drop_last();
        if kd.contains_key(k) {
            let p = kd[k].pos;
            assert(rec_at(recs, p) == (if r.pos == p { Some(r) } else { rec_at(rest, p) }));
            lemma_rec_at_bound(rest, r.pos as int, p);
        }
        if kd2.contains_key(k) {
            let p = kd2[k].pos;
            assert(rec_at(recs, p) == (if r.pos == p { Some(r) } else { rec_at(rest, p) }));
        }
        lemma_kd_change(kd, kd2, f, rest, r.pos as int, k);
        lemma_rec_at_bound(rest, r.pos as int, r.pos);
        if kd.contains_key(k) { lemma_rec_at_bound(rest, r.pos as int, kd[k].pos); }
        if kd2.contains_key(k) { lemma_rec_at_bound(rest, r.pos as int, kd2[k].pos); }
        if r.key != k {
            assert(kd2.contains_key(r.key) == kd.contains_key(r.key));
            if kd.contains_key(r.key) { assert(kd2[r.key] == kd[r.key]); }
        }
    }
}
/// the key directory is unchanged for a file's records when only keys pointing elsewhere change
proof fn lemma_counts_kd_frame(kd: Map<Bytes, KeyDirEntry>, kd2: Map<Bytes, KeyDirEntry>, f: u64, recs: Seq<Rec>)
    requires forall |i: int| 0 <= i < recs.len() ==> is_live(kd2, f, #[trigger] recs[i]) == is_live(kd, f, recs[i])
    ensures live_n(kd2, f, recs) == live_n(kd, f, recs), dead_n(kd2, f, recs) == dead_n(kd, f, recs), dead_b(kd2, f, recs) == dead_b(kd, f, recs)
    decreases recs.len()
{
    if recs.len() > 0 {
        assert forall |i: int| 0 <= i < recs.drop_last().len() implies is_live(kd2, f, #[trigger] recs.drop_last()[i]) == is_live(kd, f, recs.drop_last()[i]) by {
            assert(recs.drop_last()[i] == recs[i]);
        }
        lemma_counts_kd_frame(kd, kd2, f, recs.drop_last());
        assert(recs.last() == recs[recs.len() - 1]);
    }
}

proof fn lemma_stats_exact_weak(st: Map<u64, LogStatistics>, kd: Map<Bytes, KeyDirEntry>, w: &World, pf: u64, pl: nat, pd: nat, pb: nat)
    requires stats_rel(st, kd, w, pf, pl, pd, pb, true), world_wf(w)
    ensures stats_rel(st, kd, w, pf, pl, pd, pb, false)
{
    reveal(stats_rel);
    assert forall |f: u64| #[trigger] w.data.contains_key(f) implies
        stat_rel(stat_of(st, f), kd, f, w.data[f].recs, if f == pf { pl } else { 0 }, if f == pf { pd } else { 0 }, if f == pf { pb } else { 0 }, false) by {
        assert(data_wf(w.data[f]));
        lemma_counts_bound(kd, f, w.data[f].recs, w.data[f].size as int);
    }
}
/// the offsets of files without pending records do not matter
proof fn lemma_stats_pf_irrelevant(st: Map<u64, LogStatistics>, kd: Map<Bytes, KeyDirEntry>, w: &World, pf: u64, pf2: u64, exact: bool)
    requires stats_rel(st, kd, w, pf, 0, 0, 0, exact)
    ensures stats_rel(st, kd, w, pf2, 0, 0, 0, exact)
{
    reveal(stats_rel);
}
proof fn lemma_stats_same_records(w1: &World, w2: &World, st: Map<u64, LogStatistics>, kd: Map<Bytes, KeyDirEntry>, pf: u64, pl: nat, pd: nat, pb: nat, exact: bool)
    requires same_records(w1, w2), stats_rel(st, kd, w1, pf, pl, pd, pb, exact)
    ensures stats_rel(st, kd, w2, pf, pl, pd, pb, exact)
{
    reveal(stats_rel);
    assert forall |f: u64| #[trigger] w2.data.contains_key(f) implies w1.data.contains_key(f) && w2.data[f].recs == w1.data[f].recs by {
        assert(w1.data.dom().contains(f));
    }
}
/// creating a new empty data file keeps the relation
proof fn lemma_stats_new_file(w1: &World, w2: &World, st: Map<u64, LogStatistics>, kd: Map<Bytes, KeyDirEntry>, id: u64, pf: u64, pl: nat, pd: nat, pb: nat, exact: bool)
    requires stats_rel(st, kd, w1, pf, pl, pd, pb, exact), !w1.data.contains_key(id), w2.data == w1.data.insert(id, empty_data()), pf != id
    ensures stats_rel(st, kd, w2, pf, pl, pd, pb, exact)
{
    reveal(stats_rel);
    assert forall |f: u64| #[trigger] w2.data.contains_key(f) implies
        stat_rel(stat_of(st, f), kd, f, w2.data[f].recs, if f == pf { pl } else { 0 }, if f == pf { pd } else { 0 }, if f == pf { pb } else { 0 }, exact) by {
        if f == id {
            assert(!st.contains_key(id));
            assert(live_n(kd, f, Seq::<Rec>::empty()) == 0 && dead_n(kd, f, Seq::<Rec>::empty()) == 0 && dead_b(kd, f, Seq::<Rec>::empty()) == 0);
        } else {
            assert(w1.data.contains_key(f));
        }
    }
}
/// (broadcast) the relation depends only on the records
broadcast proof fn lemma_b_stats_same(w1: &World, w2: &World, st: Map<u64, LogStatistics>, kd: Map<Bytes, KeyDirEntry>, pf: u64, pl: nat, pd: nat, pb: nat, exact: bool)
    requires #[trigger] same_records(w1, w2), stats_rel(st, kd, w1, pf, pl, pd, pb, exact)
    ensures #[trigger] stats_rel(st, kd, w2, pf, pl, pd, pb, exact)
{
    lemma_stats_same_records(w1, w2, st, kd, pf, pl, pd, pb, exact);
}
/// (broadcast) a failed operation abandons its pending record: the weak relation without offsets follows
broadcast proof fn lemma_b_stats_weaken(st: Map<u64, LogStatistics>, kd: Map<Bytes, KeyDirEntry>, w: &World, pf: u64, pl: nat, pd: nat, pb: nat)
    requires #[trigger] stats_rel(st, kd, w, pf, pl, pd, pb, false), pd >= pl
    ensures stats_rel(st, kd, w, 0, 0, 0, 0, false)
{
    reveal(stats_rel);
}
/// (broadcast) index, well-formedness and model depend only on the records
broadcast proof fn lemma_b_same_records(w1: &World, w2: &World, kd: Map<Bytes, KeyDirEntry>)
    requires #[trigger] same_records(w1, w2), world_wf(w1), #[trigger] index_ok(kd, w1)
    ensures world_wf(w2), world_extends(w1, w2), index_ok(kd, w2), model(kd, w2) == model(kd, w1)
{
    lemma_same_records(w1, w2, kd);
}
broadcast group group_store {
    lemma_b_stats_same,
    lemma_b_stats_weaken,
    lemma_b_same_records,
}

/// Step 1 of a write: record rc appended to file a; the key directory does not point at it yet
proof fn lemma_stats_append(w0: &World, w1: &World, st: Map<u64, LogStatistics>, kd: Map<Bytes, KeyDirEntry>, a: u64, rc: Rec, exact: bool)
    requires
        stats_rel(st, kd, w0, 0, 0, 0, 0, exact), world_wf(w0), index_ok(kd, w0),
        w0.data.contains_key(a), rc.pos == w0.data[a].size, rc.len > 0,
        w1.data.dom() == w0.data.dom(), w1.data[a].recs == w0.data[a].recs.push(rc),
        forall |i: u64| i != a && w0.data.contains_key(i) ==> #[trigger] w1.data[i] == w0.data[i],
    ensures stats_rel(st, kd, w1, a, 0, 1, rc.len as nat, exact)
{
    reveal(stats_rel);
    let recs = w0.data[a].recs;
    assert(data_wf(w0.data[a]));
    lemma_counts_push(kd, a, recs, rc);
    lemma_rec_at_bound(recs, w0.data[a].size as int, rc.pos);
    if kd.contains_key(rc.key) && kd[rc.key].fileid == a { assert(loc_ok(w0, rc.key, kd[rc.key])); }
    assert(!is_live(kd, a, rc));
    assert forall |f: u64| #[trigger] w1.data.contains_key(f) implies
        stat_rel(stat_of(st, f), kd, f, w1.data[f].recs, if f == a { 0 } else { 0 }, if f == a { 1 } else { 0 }, if f == a { rc.len as nat } else { 0 }, exact) by {
        assert(w0.data.dom().contains(f));
        assert(w0.data.contains_key(f));
    }
    assert forall |f: u64| #[trigger] st.contains_key(f) implies w1.data.contains_key(f) by {
        assert(w0.data.contains_key(f));
        assert(w1.data.dom().contains(f));
    }
}
/// Step 2 of a write: the counters of file a are bumped (add_live: dl = 1; add_dead: dd = 1, db = len)
proof fn lemma_stats_bump(w: &World, st: Map<u64, LogStatistics>, st2: Map<u64, LogStatistics>, kd: Map<Bytes, KeyDirEntry>, a: u64,
                          pl: nat, pd: nat, pb: nat, dl: nat, dd: nat, db: nat, exact: bool)
    requires
        stats_rel(st, kd, w, a, pl, pd, pb, exact), w.data.contains_key(a), pd >= dd, pb >= db,
        st2 == st.insert(a, LogStatistics { live_keys: (stat_of(st, a).live_keys + dl) as u64, dead_keys: (stat_of(st, a).dead_keys + dd) as u64, dead_bytes: (stat_of(st, a).dead_bytes + db) as u64 }),
        stat_of(st, a).live_keys + dl <= u64::MAX, stat_of(st, a).dead_keys + dd <= u64::MAX, stat_of(st, a).dead_bytes + db <= u64::MAX,
    ensures stats_rel(st2, kd, w, a, pl + dl, (pd - dd) as nat, (pb - db) as nat, exact)
{
    reveal(stats_rel);
    assert forall |f: u64| #[trigger] w.data.contains_key(f) implies
        stat_rel(stat_of(st2, f), kd, f, w.data[f].recs, if f == a { pl + dl } else { 0 }, if f == a { (pd - dd) as nat } else { 0 }, if f == a { (pb - db) as nat } else { 0 }, exact) by {
        if f != a { assert(stat_of(st2, f) == stat_of(st, f)); }
    }
}
/// what the counters allow before bumping them (no overflow)
proof fn lemma_stats_room(w: &World, st: Map<u64, LogStatistics>, kd: Map<Bytes, KeyDirEntry>, a: u64, pl: nat, pd: nat, pb: nat)
    requires stats_rel(st, kd, w, a, pl, pd, pb, false), world_wf(w), w.data.contains_key(a)
    ensures stat_of(st, a).live_keys + stat_of(st, a).dead_keys + pd <= w.data[a].recs.len() + pl, w.data[a].recs.len() < 0x1_0000_0000_0000,
            stat_of(st, a).dead_bytes + pb <= w.data[a].size, w.data[a].size < 0x4000_0000_0000_0000
{
    reveal(stats_rel);
    assert(data_wf(w.data[a]));
    lemma_counts_bound(kd, a, w.data[a].recs, w.data[a].size as int);
}
/// before `overwrite` on the file of the entry that key k had: there is a live key to turn dead, and room in the counters
proof fn lemma_stats_overwrite_room(w: &World, st: Map<u64, LogStatistics>, kd: Map<Bytes, KeyDirEntry>, k: Bytes, pf: u64, pl: nat, pd: nat, pb: nat)
    requires stats_rel(st, kd, w, pf, pl, pd, pb, false), world_wf(w), index_ok(kd, w), kd.contains_key(k)
    ensures stat_of(st, kd[k].fileid).live_keys >= 1, stat_of(st, kd[k].fileid).dead_keys < 0x2_0000_0000_0000,
            stat_of(st, kd[k].fileid).dead_bytes + kd[k].len < 0x8000_0000_0000_0000
{
    reveal(stats_rel);
    let f = kd[k].fileid;
    assert(loc_ok(w, k, kd[k]));
    assert(data_wf(w.data[f]));
    lemma_live_pos(kd, f, w.data[f].recs, w.data[f].size as int, k);
    lemma_counts_bound(kd, f, w.data[f].recs, w.data[f].size as int);
    lemma_rec_at_bound(w.data[f].recs, w.data[f].size as int, kd[k].pos);
}
/// Step 3 of put: the key directory is pointed at the pending record rc (in file a) and the entry it replaces,
/// if any, is accounted as overwritten.
proof fn lemma_stats_publish(w: &World, st: Map<u64, LogStatistics>, st2: Map<u64, LogStatistics>, kd: Map<Bytes, KeyDirEntry>, a: u64, rc: Rec, e: KeyDirEntry, exact: bool)
    requires
        stats_rel(st, kd, w, a, 1, 1, rc.len as nat, exact), world_wf(w), index_ok(kd, w),
        w.data.contains_key(a), w.data[a].recs.len() > 0, w.data[a].recs.last() == rc,
        e.fileid == a, e.pos == rc.pos, !is_live(kd, a, rc),
        kd.contains_key(rc.key) ==> st2 == st.insert(kd[rc.key].fileid, LogStatistics {
            live_keys: (stat_of(st, kd[rc.key].fileid).live_keys - 1) as u64,
            dead_keys: (stat_of(st, kd[rc.key].fileid).dead_keys + 1) as u64,
            dead_bytes: (stat_of(st, kd[rc.key].fileid).dead_bytes + kd[rc.key].len) as u64 }),
        !kd.contains_key(rc.key) ==> st2 == st,
    ensures
        stats_rel(st2, kd.insert(rc.key, e), w, 0, 0, 0, 0, exact),
        kd.contains_key(rc.key) ==> stat_of(st, kd[rc.key].fileid).live_keys >= 1,
{
    reveal(stats_rel);
    let k = rc.key;
    let kd2 = kd.insert(k, e);
    assert forall |f: u64| #[trigger] w.data.contains_key(f) implies stat_rel(stat_of(st2, f), kd2, f, w.data[f].recs, 0, 0, 0, exact)
        && (kd.contains_key(k) && kd[k].fileid == f ==> stat_of(st, f).live_keys >= 1) by {
        assert(data_wf(w.data[f]));
        let recs = w.data[f].recs;
        let hit = kd.contains_key(k) && kd[k].fileid == f;
        lemma_counts_bound(kd, f, recs, w.data[f].size as int);
        if hit { assert(loc_ok(w, k, kd[k])); lemma_live_pos(kd, f, recs, w.data[f].size as int, k); lemma_rec_at_bound(recs, w.data[f].size as int, kd[k].pos); }
        if f == a {
            // all records but the last: k no longer points at any of them
            let rest = recs.drop_last();
            assert(recs =~= rest.push(rc));
            lemma_rec_at_bound(rest, rc.pos as int, rc.pos);
            if hit {
                let p = kd[k].pos;
                assert(rec_at(recs, p) == (if rc.pos == p { Some(rc) } else { rec_at(rest, p) }));
                lemma_rec_at_bound(rest, rc.pos as int, p);
            }
            lemma_kd_change(kd, kd2, a, rest, rc.pos as int, k);
            lemma_counts_push(kd, a, rest, rc);
            lemma_counts_push(kd2, a, rest, rc);
            assert(is_live(kd2, a, rc));

        } else {
            lemma_kd_change(kd, kd2, f, recs, w.data[f].size as int, k);
        }
    }
    assert forall |f: u64| #[trigger] st2.contains_key(f) implies w.data.contains_key(f) by {
        if kd.contains_key(k) && f == kd[k].fileid { assert(loc_ok(w, k, kd[k])); }
    }
}
/// Step 3 of delete: the key is removed from the key directory and the entry it had, if any, is accounted as overwritten.
proof fn lemma_stats_unpublish(w: &World, st: Map<u64, LogStatistics>, st2: Map<u64, LogStatistics>, kd: Map<Bytes, KeyDirEntry>, k: Bytes, exact: bool)
    requires
        stats_rel(st, kd, w, 0, 0, 0, 0, exact), world_wf(w), index_ok(kd, w),
        kd.contains_key(k) ==> st2 == st.insert(kd[k].fileid, LogStatistics {
            live_keys: (stat_of(st, kd[k].fileid).live_keys - 1) as u64,
            dead_keys: (stat_of(st, kd[k].fileid).dead_keys + 1) as u64,
            dead_bytes: (stat_of(st, kd[k].fileid).dead_bytes + kd[k].len) as u64 }),
        !kd.contains_key(k) ==> st2 == st,
    ensures
        stats_rel(st2, kd.remove(k), w, 0, 0, 0, 0, exact),
        kd.contains_key(k) ==> stat_of(st, kd[k].fileid).live_keys >= 1,
{
    reveal(stats_rel);
    let kd2 = kd.remove(k);
    assert forall |f: u64| #[trigger] w.data.contains_key(f) implies stat_rel(stat_of(st2, f), kd2, f, w.data[f].recs, 0, 0, 0, exact)
        && (kd.contains_key(k) && kd[k].fileid == f ==> stat_of(st, f).live_keys >= 1) by {
        assert(data_wf(w.data[f]));
        let recs = w.data[f].recs;
        lemma_counts_bound(kd, f, recs, w.data[f].size as int);
        if kd.contains_key(k) && kd[k].fileid == f { assert(loc_ok(w, k, kd[k])); lemma_live_pos(kd, f, recs, w.data[f].size as int, k); lemma_rec_at_bound(recs, w.data[f].size as int, kd[k].pos); }
        lemma_kd_change(kd, kd2, f, recs, w.data[f].size as int, k);
    }
    assert forall |f: u64| #[trigger] st2.contains_key(f) implies w.data.contains_key(f) by {
        if kd.contains_key(k) && f == kd[k].fileid { assert(loc_ok(w, k, kd[k])); }
    }
}
/// a key pointing into `recs` makes at least one record live
proof fn lemma_live_pos(kd: Map<Bytes, KeyDirEntry>, f: u64, recs: Seq<Rec>, size: int, k: Bytes)
    requires recs_wf(recs, size), kd.contains_key(k), kd[k].fileid == f, rec_at(recs, kd[k].pos) matches Some(r) && r.key == k
    ensures live_n(kd, f, recs) >= 1
    decreases recs.len()
{
    if recs.len() > 0 {
        let r = recs.last();
        if r.pos == kd[k].pos { } else { lemma_live_pos(kd, f, recs.drop_last(), r.pos as int, k); }
    }
}

impl Writer {
    /// WriterWf + Index: what every Writer operation needs and re-establishes at *every* exit
    spec fn core(&self, w: &World) -> bool {
        &&& world_wf(w)
        &&& self.writer.id() == self.active_fileid && self.writer.kind() is Data
        &&& w.data.contains_key(self.active_fileid) && !w.hint.contains_key(self.active_fileid)
        &&& self.written_bytes <= w.data[self.active_fileid].size
        &&& forall |i: u64| w.ever.contains(i) ==> i <= self.active_fileid
        &&& index_ok(self.ctx.keydir@, w)
    }
    /// "usable": core + no partial record at the end of the active file + StatsWeak
    spec fn inv(&self, w: &World) -> bool {
        &&& self.core(w)
        &&& !w.data[self.active_fileid].torn
        &&& stats_rel(self.ctx.stats@, self.ctx.keydir@, w, 0, 0, 0, 0, false)
    }
    spec fn exact(&self, w: &World) -> bool {
        stats_rel(self.ctx.stats@, self.ctx.keydir@, w, 0, 0, 0, 0, true)
    }
    /// the active file is no larger than the configured maximum (checked after every write)
    spec fn size_ok(&self, w: &World) -> bool {
        self.written_bytes == w.data[self.active_fileid].size && self.written_bytes <= self.ctx.conf.max_file_size
    }
}

/// the rely half of T8: the Writer behind the lock and the Readers in the pool satisfy their invariants
impl SharedInv for Writer { closed spec fn shared_inv(&self, w: &World) -> bool { self.inv(w) } }
/// the map a Handle denotes: what the key directory of its writer says about the files (C01 at the Handle level)
spec fn hmodel(h: &Handle, w: &World) -> Map<Bytes, Bytes> { model(h.writer@.ctx.keydir@, w) }
impl KvView for Handle { closed spec fn kv_map(&self, w: &World) -> Map<Bytes, Bytes> { hmodel(self, w) } }
impl SharedInv for Reader { closed spec fn shared_inv(&self, w: &World) -> bool { world_wf(w) && index_ok(self.ctx.keydir@, w) } }

// ---- C18 (decision logic of the background merge): when does the configuration ask for a merge
spec fn trigger_hit(st: LogStatistics, t: MergeTriggers) -> bool {
    st.dead_bytes > t.dead_bytes || f64_gt(log::spec_fragmentation(st), t.fragmentation)
}
spec fn any_trigger(stats: Map<u64, LogStatistics>, t: MergeTriggers) -> bool {
    exists |f: u64| stats.contains_key(f) && #[trigger] trigger_hit(stats[f], t)
}
/// ghost checkpoint after the select! of the merge task (sleep arm): one more wake-up, after a sleep inside [interval - jitter, interval + jitter]
proof fn bg_merge_sleep(b0: BgLog, b: BgLog, interval: int, jitter: int)
    requires b.ticks == b0.ticks + 1 && b.blocking_calls == b0.blocking_calls
        && interval - jitter <= b.last_sleep_ms <= interval + jitter && 0 <= jitter <= interval,   //@[C18.merge_task.sleep_within_interval_and_jitter]
{}
/// ghost checkpoint at the end of a turn of the merge task: a merge was handed to the blocking pool only if the configuration asks
/// for one now, and with policy `always` exactly if it does
proof fn bg_merge_turn(b0: BgLog, b: BgLog, always: bool, asked: bool)
    requires b.ticks == b0.ticks + 1 && b0.blocking_calls <= b.blocking_calls <= b0.blocking_calls + 1
        && (b.blocking_calls == b0.blocking_calls + 1 ==> asked) && (always && asked ==> b.blocking_calls == b0.blocking_calls + 1),   //@[C18.merge_task.merge_iff_asked]
{}
/// ghost checkpoint after the select! of the sync task (sleep arm): the sleep is the configured interval
proof fn bg_sync_sleep(b0: BgLog, b: BgLog, d: int)
    requires b.ticks == b0.ticks + 1 && b.blocking_calls == b0.blocking_calls && b.last_sleep_ms == d,   //@[C18.sync_task.sleeps_the_configured_interval]
{}
// ---- C13: which files a merge must / may select, as the configuration says
/// reasons that make a file eligible whatever its size
spec fn threshold_hit(st: LogStatistics, t: MergeThresholds) -> bool {
    st.dead_bytes > t.dead_bytes || f64_gt(log::spec_fragmentation(st), t.fragmentation)
}
/// the selection is exactly what the thresholds say: a file with statistics is selected if it has too many dead bytes, is too
/// fragmented or is smaller than small_file (for a file with a partial record at its end the size on disk is what counts, which is
/// at least the logical size), and only then
spec fn selection_ok(sel: Set<u64>, stats: Map<u64, LogStatistics>, w: &World, t: MergeThresholds) -> bool {
    forall |id: u64| #[trigger] stats.contains_key(id) ==> w.data.contains_key(id)
        && ((threshold_hit(stats[id], t) || (w.data[id].size < t.small_file && !w.data[id].torn)) ==> sel.contains(id))
        && (sel.contains(id) ==> (threshold_hit(stats[id], t) || w.data[id].size < t.small_file))
}
