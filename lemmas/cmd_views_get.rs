impl Get { pub closed spec fn vkey(&self) -> Seq<u8> { self.key.bytes() } }
