impl Del { pub closed spec fn vkeys(&self) -> Seq<Seq<u8>> { ubytes(self.keys@) } }
