// view of the private flag of crate::shutdown::Shutdown (the same name the shim of units cmd / cmd10 uses)
impl Shutdown {
    /// the shutdown signal has been received
    pub closed spec fn fired(&self) -> bool { self.shutdown }
}
