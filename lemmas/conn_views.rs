// abstract views of a Connection (its fields are private)
impl<S> Connection<S> {
    pub closed spec fn buf(&self) -> Seq<u8> { self.buffer@ }
    pub closed spec fn out(&self) -> Seq<u8> { self.stream.out() }
    pub closed spec fn flushed(&self) -> int { self.stream.flushed() }
    pub closed spec fn incoming(&self) -> Seq<u8> { self.stream.incoming() }
    pub closed spec fn healthy(&self) -> bool { self.stream.healthy() }
}
