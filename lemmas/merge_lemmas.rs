// ------------------------------ merge: loop-state predicates and step lemmas (verified, not trusted) ------------------------------
spec fn entry_of(f: u64, r: Rec) -> KeyDirEntry { KeyDirEntry { fileid: f, len: r.len, pos: r.pos, tstamp: r.tstamp } }
spec fn hrec_of(r: Rec) -> HRec { HRec { key: r.key, tstamp: r.tstamp, pos: r.pos, len: r.len } }

/// a merge output file: not torn, its hint file lists exactly its records, and every record is the live value of its key
spec fn out_ok(kd: Map<Bytes, KeyDirEntry>, w: &World, g: u64) -> bool {
    &&& w.data.contains_key(g) && w.hint.contains_key(g) && !w.data[g].torn && !w.hint[g].torn
    &&& w.hint[g].recs.len() == w.data[g].recs.len()
    &&& forall |x: int| 0 <= x < w.data[g].recs.len() ==> {
            let r = #[trigger] w.data[g].recs[x];
            r.val is Some && w.hint[g].recs[x] == hrec_of(r) && kd.contains_key(r.key) && kd[r.key] == entry_of(g, r)
        }
}
spec fn all_live_stat(s: LogStatistics, n: nat) -> bool { s.live_keys == n && s.dead_keys == 0 && s.dead_bytes == 0 }

/// state of the copy loop of `Writer::merge` after `i` keys of the enumeration `keys`
#[verifier::opaque]
spec fn merge_state(kd0: Map<Bytes, KeyDirEntry>, st0: Map<u64, LogStatistics>, w0: &World, sel: Set<u64>, act: u64, keys: Seq<Bytes>, exact: bool,
                    kd: Map<Bytes, KeyDirEntry>, st: Map<u64, LogStatistics>, w: &World, i: int, hi: u64) -> bool {
    let lo = (act + 1) as u64;
    &&& kd.dom() == kd0.dom() && 0 <= i <= keys.len() && act < lo <= hi < 0x4000_0000_0000_0000
    // the files that existed when the merge started are untouched
    &&& forall |f: u64| f <= act ==> (#[trigger] w.data.contains_key(f) == w0.data.contains_key(f)) && (w0.data.contains_key(f) ==> w.data[f] == w0.data[f])
    &&& forall |f: u64| f <= act ==> (#[trigger] w.hint.contains_key(f) == w0.hint.contains_key(f)) && (w0.hint.contains_key(f) ==> w.hint[f] == w0.hint[f])
    // ids
    &&& forall |g: u64| w0.ever.contains(g) ==> g <= act
    &&& forall |g: u64| #[trigger] w.ever.contains(g) <==> (w0.ever.contains(g) || lo <= g <= hi)
    &&& forall |g: u64| #[trigger] w.data.contains_key(g) ==> g <= hi
    &&& forall |g: u64| sel.contains(g) ==> g <= act
    // outputs
    &&& forall |g: u64| lo <= g <= hi ==> #[trigger] out_ok(kd, w, g) && all_live_stat(stat_of(st, g), w.data[g].recs.len())
    // progress
    &&& forall |j: int| 0 <= j < i ==> !sel.contains((#[trigger] kd[keys[j]]).fileid)
    &&& forall |j: int| i <= j < keys.len() ==> #[trigger] kd[keys[j]] == kd0[keys[j]]
    &&& forall |k: Bytes| #[trigger] kd.contains_key(k) ==> kd[k] == kd0[k] || (lo <= kd[k].fileid <= hi && sel.contains(kd0[k].fileid))
    // accounting of the unselected old files
    &&& forall |f: u64| #[trigger] st.contains_key(f) ==> w.data.contains_key(f)
    &&& forall |f: u64| f <= act && !sel.contains(f) && #[trigger] w.data.contains_key(f) ==>
            stat_of(st, f) == stat_of(st0, f) && stat_rel(stat_of(st, f), kd, f, w.data[f].recs, 0, 0, 0, false)
            && (exact ==> stat_rel(stat_of(st, f), kd, f, w.data[f].recs, 0, 0, 0, true))
}

/// a file all of whose records are live: live = #records, nothing dead
proof fn lemma_all_live_counts(kd: Map<Bytes, KeyDirEntry>, g: u64, recs: Seq<Rec>)
    requires forall |x: int| 0 <= x < recs.len() ==> kd.contains_key((#[trigger] recs[x]).key) && kd[recs[x].key] == entry_of(g, recs[x])
    ensures live_n(kd, g, recs) == recs.len(), dead_n(kd, g, recs) == 0, dead_b(kd, g, recs) == 0
    decreases recs.len()
{
    if recs.len() > 0 {
        assert forall |x: int| 0 <= x < recs.drop_last().len() implies kd.contains_key((#[trigger] recs.drop_last()[x]).key) && kd[recs.drop_last()[x].key] == entry_of(g, recs.drop_last()[x]) by {
            assert(recs.drop_last()[x] == recs[x]);
        }
        lemma_all_live_counts(kd, g, recs.drop_last());
        assert(recs.last() == recs[recs.len() - 1]);
        assert(is_live(kd, g, recs.last()));
    }
}

/// entering the copy loop: the first output data file and its hint file have just been created (empty)
#[verifier::spinoff_prover]
proof fn lemma_merge_init(kd0: Map<Bytes, KeyDirEntry>, st0: Map<u64, LogStatistics>, w0: &World, sel: Set<u64>, act: u64, keys: Seq<Bytes>, exact: bool, w: &World)
    requires
        world_wf(w0), index_ok(kd0, w0), stats_rel(st0, kd0, w0, 0, 0, 0, 0, false), exact ==> stats_rel(st0, kd0, w0, 0, 0, 0, 0, true),
        forall |g: u64| w0.ever.contains(g) ==> g <= act, act + 1 < 0x4000_0000_0000_0000,
        forall |g: u64| sel.contains(g) ==> st0.contains_key(g),
        w.data == w0.data.insert((act + 1) as u64, empty_data()), w.ever == w0.ever.insert((act + 1) as u64),
        w.hint == w0.hint.insert((act + 1) as u64, empty_hint()),
    ensures
        merge_state(kd0, st0, w0, sel, act, keys, exact, kd0, st0, w, 0, (act + 1) as u64),
        world_wf(w), world_extends(w0, w),
{
    reveal(merge_state);
    reveal(stats_rel);
    let lo = (act + 1) as u64;
    assert(!w0.data.contains_key(lo)) by { if w0.data.contains_key(lo) { assert(w0.ever.contains(lo)); } }
    assert(!w0.hint.contains_key(lo)) by { if w0.hint.contains_key(lo) { assert(w0.data.contains_key(lo)); } }
    assert(data_wf(empty_data())) by { assert(recs_wf(Seq::<Rec>::empty(), 0)); }
    assert(!st0.contains_key(lo));
    assert forall |g: u64| #[trigger] w.data.contains_key(g) implies g <= lo by { if g != lo { assert(w0.data.contains_key(g)); assert(w0.ever.contains(g)); } }
    assert forall |g: u64| sel.contains(g) implies g <= act by { assert(st0.contains_key(g)); assert(w0.data.contains_key(g)); assert(w0.ever.contains(g)); }
    assert forall |f: u64| f <= act && !sel.contains(f) && #[trigger] w.data.contains_key(f) implies
            stat_rel(stat_of(st0, f), kd0, f, w.data[f].recs, 0, 0, 0, false) && (exact ==> stat_rel(stat_of(st0, f), kd0, f, w.data[f].recs, 0, 0, 0, true)) by {
        assert(w0.data.contains_key(f));
    }
    assert(out_ok(kd0, w, lo));
    assert forall |i: u64| #[trigger] w.data.contains_key(i) implies w.ever.contains(i) && data_wf(w.data[i]) by { if i != lo { assert(w0.data.contains_key(i)); } }
    assert forall |i: u64| #[trigger] w.hint.contains_key(i) implies w.data.contains_key(i) by { if i != lo { assert(w0.hint.contains_key(i)); assert(w0.data.contains_key(i)); } }
    assert forall |i: u64| #[trigger] w.ever.contains(i) implies i < 0x4000_0000_0000_0000 by { if i != lo { assert(w0.ever.contains(i)); } }
}

/// a key whose entry is not in a selected file is skipped
proof fn lemma_merge_skip(kd0: Map<Bytes, KeyDirEntry>, st0: Map<u64, LogStatistics>, w0: &World, sel: Set<u64>, act: u64, keys: Seq<Bytes>, exact: bool,
                          kd: Map<Bytes, KeyDirEntry>, st: Map<u64, LogStatistics>, w: &World, i: int, hi: u64)
    requires merge_state(kd0, st0, w0, sel, act, keys, exact, kd, st, w, i, hi), i < keys.len(), !sel.contains(kd[keys[i]].fileid)
    ensures merge_state(kd0, st0, w0, sel, act, keys, exact, kd, st, w, i + 1, hi)
{
    reveal(merge_state);
}

/// what is known about the entry of the next key
proof fn lemma_merge_next_key(kd0: Map<Bytes, KeyDirEntry>, st0: Map<u64, LogStatistics>, w0: &World, sel: Set<u64>, act: u64, keys: Seq<Bytes>, exact: bool,
                              kd: Map<Bytes, KeyDirEntry>, st: Map<u64, LogStatistics>, w: &World, i: int, hi: u64)
    requires merge_state(kd0, st0, w0, sel, act, keys, exact, kd, st, w, i, hi), i < keys.len(), kd.contains_key(keys[i]), index_ok(kd, w), world_wf(w)
    ensures kd[keys[i]] == kd0[keys[i]], sel.contains(kd[keys[i]].fileid) ==> kd[keys[i]].fileid <= act,
            w.data.contains_key(hi), w.hint.contains_key(hi), !w.data[hi].torn, !w.hint[hi].torn, act < hi < 0x4000_0000_0000_0000,
            forall |g: u64| w.ever.contains(g) ==> g <= hi,
            stat_of(st, hi).live_keys == w.data[hi].recs.len(), w.data[hi].recs.len() < 0x1_0000_0000_0000,
{
    reveal(merge_state);
    assert(out_ok(kd, w, hi));
    assert(data_wf(w.data[hi]));
    assert forall |g: u64| w.ever.contains(g) implies g <= hi by { if w0.ever.contains(g) { } }
}

/// one key copied: its record re-written at the end of output file `hi` (w -> w2 covers the data flush and the hint
/// append), the key directory re-pointed, the output's live counter bumped
#[verifier::spinoff_prover]
proof fn lemma_merge_copy(kd0: Map<Bytes, KeyDirEntry>, st0: Map<u64, LogStatistics>, w0: &World, sel: Set<u64>, act: u64, keys: Seq<Bytes>, exact: bool,
                          kd: Map<Bytes, KeyDirEntry>, st: Map<u64, LogStatistics>, w: &World, i: int, hi: u64, w2: &World)
    requires
        merge_state(kd0, st0, w0, sel, act, keys, exact, kd, st, w, i, hi), world_wf(w), index_ok(kd, w),
        i < keys.len(), keys.no_duplicates(), kd.contains_key(keys[i]), sel.contains(kd[keys[i]].fileid),
        ({
            let k = keys[i]; let e = kd[k]; let ro = rec_at(w.data[e.fileid].recs, e.pos)->0;
            let rn = Rec { pos: w.data[hi].size, ..ro };
            &&& w2.ever == w.ever && w2.data.dom() == w.data.dom() && w2.hint.dom() == w.hint.dom()
            &&& w2.data[hi] == (DataG { recs: w.data[hi].recs.push(rn), size: (w.data[hi].size + rn.len) as u64, ..w.data[hi] })
            &&& w.data[hi].size + rn.len < 0x4000_0000_0000_0000 && w.data[hi].recs.len() + 1 < 0x1_0000_0000_0000
            &&& forall |g: u64| g != hi && w.data.contains_key(g) ==> #[trigger] w2.data[g] == w.data[g]
            &&& w2.hint[hi] == (HintG { recs: w.hint[hi].recs.push(hrec_of(rn)), ..w.hint[hi] })
            &&& forall |g: u64| g != hi && w.hint.contains_key(g) ==> #[trigger] w2.hint[g] == w.hint[g]
        }),
    ensures ({
        let k = keys[i]; let e = kd[k]; let ro = rec_at(w.data[e.fileid].recs, e.pos)->0;
        let rn = Rec { pos: w.data[hi].size, ..ro };
        let kd2 = kd.insert(k, entry_of(hi, rn));
        let st2 = st.insert(hi, bump_stat(stat_of(st, hi), 1, 0, 0));
        &&& merge_state(kd0, st0, w0, sel, act, keys, exact, kd2, st2, w2, i + 1, hi)
        &&& world_wf(w2) && index_ok(kd2, w2) && model(kd2, w2) == model(kd, w) && world_extends(w, w2)
        &&& entry_of(hi, rn).tstamp == e.tstamp && rn.len == e.len && rn.key == k
    })
{
    reveal(merge_state);
    let lo = (act + 1) as u64;
    let k = keys[i]; let e = kd[k]; let ro = rec_at(w.data[e.fileid].recs, e.pos)->0;
    let rn = Rec { pos: w.data[hi].size, ..ro };
    let e2 = entry_of(hi, rn);
    let kd2 = kd.insert(k, e2);
    let st2 = st.insert(hi, bump_stat(stat_of(st, hi), 1, 0, 0));
    assert(loc_ok(w, k, e));
    assert(out_ok(kd, w, hi));
    assert(data_wf(w.data[hi]));
    assert(e == kd0[k]);
    assert(e.fileid <= act);
    // the world: one record appended to output hi
    assert(data_wf(w.data[e.fileid]));
    lemma_rec_at_bound(w.data[e.fileid].recs, w.data[e.fileid].size as int, e.pos);
    lemma_append_extends(w, w2, hi, rn);
    lemma_recs_wf_push(w.data[hi].recs, w.data[hi].size as int, rn);
    assert(world_wf(w2)) by {
        assert forall |g: u64| #[trigger] w2.data.contains_key(g) implies w2.ever.contains(g) && data_wf(w2.data[g]) by {
            assert(w.data.dom().contains(g)); assert(w.data.contains_key(g));
        }
        assert forall |g: u64| #[trigger] w2.hint.contains_key(g) implies w2.data.contains_key(g) by {
            assert(w.hint.dom().contains(g)); assert(w.hint.contains_key(g)); assert(w.data.contains_key(g)); assert(w2.data.dom().contains(g));
        }
    }
    lemma_index_mono(w, w2, kd);
    assert(index_ok(kd2, w2)) by {
        assert forall |kk: Bytes| kd2.contains_key(kk) implies loc_ok(w2, kk, #[trigger] kd2[kk]) by {
            if kk != k { assert(kd.contains_key(kk)); assert(loc_ok(w2, kk, kd[kk])); }
            else { assert(w2.data.dom().contains(hi)); }
        }
    }
    assert(model(kd2, w2) =~= model(kd, w)) by {
        assert(kd2.dom() =~= kd.dom());
        assert forall |kk: Bytes| kd2.contains_key(kk) implies #[trigger] model(kd2, w2)[kk] == model(kd, w)[kk] by {
            if kk != k { assert(model(kd, w2)[kk] == model(kd, w)[kk]); }
        }
    }
    assert(kd2.dom() =~= kd0.dom());
    // old files untouched
    assert forall |f: u64| f <= act implies (#[trigger] w2.data.contains_key(f) == w0.data.contains_key(f)) && (w0.data.contains_key(f) ==> w2.data[f] == w0.data[f]) by {
        if w.data.contains_key(f) { assert(w2.data.dom().contains(f)); } else { assert(!w2.data.dom().contains(f)); }
    }
    assert forall |f: u64| f <= act implies (#[trigger] w2.hint.contains_key(f) == w0.hint.contains_key(f)) && (w0.hint.contains_key(f) ==> w2.hint[f] == w0.hint[f]) by {
        if w.hint.contains_key(f) { assert(w2.hint.dom().contains(f)); } else { assert(!w2.hint.dom().contains(f)); }
    }
    assert forall |g: u64| #[trigger] w2.data.contains_key(g) implies g <= hi by { assert(w.data.dom().contains(g)); assert(w.data.contains_key(g)); }
    // outputs
    assert forall |g: u64| lo <= g <= hi implies #[trigger] out_ok(kd2, w2, g) && all_live_stat(stat_of(st2, g), w2.data[g].recs.len()) by {
        assert(out_ok(kd, w, g));
        assert(w2.data.dom().contains(g)); assert(w2.hint.dom().contains(g));
        if g == hi {
            assert forall |x: int| 0 <= x < w2.data[g].recs.len() implies ({
                let r = #[trigger] w2.data[g].recs[x];
                r.val is Some && w2.hint[g].recs[x] == hrec_of(r) && kd2.contains_key(r.key) && kd2[r.key] == entry_of(g, r) }) by {
                if x < w.data[g].recs.len() {
                    let r = w.data[g].recs[x];
                    assert(w2.data[g].recs[x] == r);
                    assert(kd[r.key] == entry_of(g, r));
                    assert(r.key != k);
                }
            }
        } else {
            assert forall |x: int| 0 <= x < w2.data[g].recs.len() implies ({
                let r = #[trigger] w2.data[g].recs[x];
                r.val is Some && w2.hint[g].recs[x] == hrec_of(r) && kd2.contains_key(r.key) && kd2[r.key] == entry_of(g, r) }) by {
                let r = w.data[g].recs[x];
                assert(kd[r.key] == entry_of(g, r));
                assert(r.key != k);
            }
        }
    }
    // progress
    assert forall |j: int| 0 <= j < i + 1 implies !sel.contains((#[trigger] kd2[keys[j]]).fileid) by {
        if j < i { assert(keys[j] != keys[i]); assert(!sel.contains(kd[keys[j]].fileid)); }
    }
    assert forall |j: int| i + 1 <= j < keys.len() implies #[trigger] kd2[keys[j]] == kd0[keys[j]] by {
        assert(keys[j] != keys[i]); assert(kd[keys[j]] == kd0[keys[j]]);
    }
    // accounting of unselected old files: none of their records changes its liveness
    assert forall |f: u64| #[trigger] st2.contains_key(f) implies w2.data.contains_key(f) by {
        if f != hi { assert(st.contains_key(f)); assert(w.data.contains_key(f)); }
        assert(w2.data.dom().contains(f));
    }
    assert forall |f: u64| f <= act && !sel.contains(f) && #[trigger] w2.data.contains_key(f) implies
            stat_of(st2, f) == stat_of(st0, f) && stat_rel(stat_of(st2, f), kd2, f, w2.data[f].recs, 0, 0, 0, false)
            && (exact ==> stat_rel(stat_of(st2, f), kd2, f, w2.data[f].recs, 0, 0, 0, true)) by {
        assert(w.data.dom().contains(f)); assert(w.data.contains_key(f));
        let recs = w.data[f].recs;
        assert forall |x: int| 0 <= x < recs.len() implies is_live(kd2, f, #[trigger] recs[x]) == is_live(kd, f, recs[x]) by { }
        lemma_counts_kd_frame(kd, kd2, f, recs);
    }
}

/// the current output is full: a fresh output data file and hint file have been created
#[verifier::spinoff_prover]
proof fn lemma_merge_rollover(kd0: Map<Bytes, KeyDirEntry>, st0: Map<u64, LogStatistics>, w0: &World, sel: Set<u64>, act: u64, keys: Seq<Bytes>, exact: bool,
                              kd: Map<Bytes, KeyDirEntry>, st: Map<u64, LogStatistics>, w: &World, i: int, hi: u64, w2: &World)
    requires
        merge_state(kd0, st0, w0, sel, act, keys, exact, kd, st, w, i, hi), world_wf(w), index_ok(kd, w), hi + 1 < 0x4000_0000_0000_0000,
        w2.data == w.data.insert((hi + 1) as u64, empty_data()), w2.ever == w.ever.insert((hi + 1) as u64),
        w2.hint == w.hint.insert((hi + 1) as u64, empty_hint()),
    ensures
        merge_state(kd0, st0, w0, sel, act, keys, exact, kd, st, w2, i, (hi + 1) as u64),
        world_wf(w2), index_ok(kd, w2), model(kd, w2) == model(kd, w), world_extends(w, w2),
{
    reveal(merge_state);
    let lo = (act + 1) as u64;
    let nh = (hi + 1) as u64;
    assert(!w.data.contains_key(nh)) by { if w.data.contains_key(nh) { } }
    assert(!w.hint.contains_key(nh)) by { if w.hint.contains_key(nh) { assert(w.data.contains_key(nh)); } }
    assert(!st.contains_key(nh)) by { if st.contains_key(nh) { assert(w.data.contains_key(nh)); } }
    assert(data_wf(empty_data())) by { assert(recs_wf(Seq::<Rec>::empty(), 0)); }
    assert(world_wf(w2)) by {
        assert forall |g: u64| #[trigger] w2.data.contains_key(g) implies w2.ever.contains(g) && data_wf(w2.data[g]) by { if g != nh { assert(w.data.contains_key(g)); } }
        assert forall |g: u64| #[trigger] w2.hint.contains_key(g) implies w2.data.contains_key(g) by { if g != nh { assert(w.hint.contains_key(g)); assert(w.data.contains_key(g)); } }
        assert forall |g: u64| #[trigger] w2.ever.contains(g) implies g < 0x4000_0000_0000_0000 by { if g != nh { assert(w.ever.contains(g)); } }
    }
    assert(world_extends(w, w2));
    lemma_index_mono(w, w2, kd);
    assert forall |g: u64| lo <= g <= nh implies #[trigger] out_ok(kd, w2, g) && all_live_stat(stat_of(st, g), w2.data[g].recs.len()) by {
        if g != nh { assert(out_ok(kd, w, g)); }
    }
    assert forall |f: u64| f <= act && !sel.contains(f) && #[trigger] w2.data.contains_key(f) implies
            stat_of(st, f) == stat_of(st0, f) && stat_rel(stat_of(st, f), kd, f, w2.data[f].recs, 0, 0, 0, false)
            && (exact ==> stat_rel(stat_of(st, f), kd, f, w2.data[f].recs, 0, 0, 0, true)) by {
        assert(w.data.contains_key(f));
    }
    assert forall |g: u64| #[trigger] w2.ever.contains(g) <==> (w0.ever.contains(g) || lo <= g <= nh) by {
        if g != nh { assert(w2.ever.contains(g) == w.ever.contains(g)); }
    }
    assert forall |f: u64| f <= act implies (#[trigger] w2.data.contains_key(f) == w0.data.contains_key(f)) && (w0.data.contains_key(f) ==> w2.data[f] == w0.data[f]) by {
        assert(w.data.contains_key(f) == w0.data.contains_key(f));
    }
    assert forall |f: u64| f <= act implies (#[trigger] w2.hint.contains_key(f) == w0.hint.contains_key(f)) && (w0.hint.contains_key(f) ==> w2.hint[f] == w0.hint[f]) by {
        assert(w.hint.contains_key(f) == w0.hint.contains_key(f));
    }
    assert forall |g: u64| #[trigger] w2.data.contains_key(g) implies g <= nh by { if g != nh { assert(w.data.contains_key(g)); } }
    assert forall |f: u64| #[trigger] st.contains_key(f) implies w2.data.contains_key(f) by { assert(w.data.contains_key(f)); }
    assert forall |k: Bytes| #[trigger] kd.contains_key(k) implies kd[k] == kd0[k] || (lo <= kd[k].fileid <= nh && sel.contains(kd0[k].fileid)) by { }
    assert forall |j: int| 0 <= j < i implies !sel.contains((#[trigger] kd[keys[j]]).fileid) by { }
    assert forall |j: int| i <= j < keys.len() implies #[trigger] kd[keys[j]] == kd0[keys[j]] by { }
}

/// state of the deletion loop of `Writer::merge` after `jj` ids of the ascending enumeration `ids` of `sel`
#[verifier::opaque]
spec fn del_state(st1: Map<u64, LogStatistics>, w1: &World, sel: Set<u64>, ids: Seq<u64>, st: Map<u64, LogStatistics>, w: &World, jj: int) -> bool {
    &&& 0 <= jj <= ids.len() && ids.to_set() == sel && w.ever == w1.ever
    &&& forall |f: u64| #[trigger] w.data.contains_key(f) ==> w1.data.contains_key(f) && w.data[f] == w1.data[f]
    &&& forall |f: u64| #[trigger] w.hint.contains_key(f) ==> w1.hint.contains_key(f) && w.hint[f] == w1.hint[f] && w.data.contains_key(f)
    &&& forall |f: u64| #[trigger] w1.data.contains_key(f) && !sel.contains(f) ==> w.data.contains_key(f)
    &&& forall |f: u64| #[trigger] w1.hint.contains_key(f) && !sel.contains(f) ==> w.hint.contains_key(f)
    &&& forall |j: int| 0 <= j < jj ==> !w.data.contains_key(#[trigger] ids[j]) && !w.hint.contains_key(ids[j]) && !st.contains_key(ids[j])
    &&& forall |f: u64| #[trigger] st.contains_key(f) ==> st1.contains_key(f) && st[f] == st1[f]
    &&& forall |f: u64| #[trigger] st1.contains_key(f) && !sel.contains(f) ==> st.contains_key(f)
}
proof fn lemma_del_init(st1: Map<u64, LogStatistics>, w1: &World, sel: Set<u64>, ids: Seq<u64>)
    requires ids.to_set() == sel, world_wf(w1)
    ensures del_state(st1, w1, sel, ids, st1, w1, 0)
{
    reveal(del_state);
}
/// one selected id: its statistics entry, hint file and data file are gone (or were not there)
proof fn lemma_del_step(st1: Map<u64, LogStatistics>, w1: &World, sel: Set<u64>, ids: Seq<u64>, st: Map<u64, LogStatistics>, w: &World, jj: int,
                        st2: Map<u64, LogStatistics>, w2: &World)
    requires
        del_state(st1, w1, sel, ids, st, w, jj), jj < ids.len(), st2 == st.remove(ids[jj]), w2.ever == w.ever,
        w2.data == w.data.remove(ids[jj]), w2.hint == w.hint.remove(ids[jj]),
    ensures del_state(st1, w1, sel, ids, st2, w2, jj + 1)
{
    reveal(del_state);
    assert(ids.to_set().contains(ids[jj]));
    assert forall |j: int| 0 <= j < jj + 1 implies !w2.data.contains_key(#[trigger] ids[j]) && !w2.hint.contains_key(ids[j]) && !st2.contains_key(ids[j]) by { }
}
/// all keys copied, all selected files removed: the invariants of the store hold again
#[verifier::spinoff_prover]
proof fn lemma_merge_finish(kd0: Map<Bytes, KeyDirEntry>, st0: Map<u64, LogStatistics>, w0: &World, sel: Set<u64>, act: u64, keys: Seq<Bytes>, exact: bool,
                            kd: Map<Bytes, KeyDirEntry>, st1: Map<u64, LogStatistics>, w1: &World, hi: u64,
                            ids: Seq<u64>, st: Map<u64, LogStatistics>, w: &World)
    requires
        merge_state(kd0, st0, w0, sel, act, keys, exact, kd, st1, w1, keys.len() as int, hi), world_wf(w1), index_ok(kd, w1), world_wf(w0),
        keys.to_set() == kd0.dom(),
        del_state(st1, w1, sel, ids, st, w, ids.len() as int),
    ensures
        world_wf(w), index_ok(kd, w), model(kd, w) == model(kd, w1),
        stats_rel(st, kd, w, 0, 0, 0, 0, false), exact ==> stats_rel(st, kd, w, 0, 0, 0, 0, true),
        hints_ok(w0) ==> hints_ok(w),
        forall |g: u64| w.ever.contains(g) ==> g <= hi, act < hi < 0x4000_0000_0000_0000,
        forall |f: u64| sel.contains(f) ==> !w.data.contains_key(f) && !w.hint.contains_key(f),
        forall |f: u64| #[trigger] w.data.contains_key(f) && w0.data.contains_key(f) ==> w.data[f] == w0.data[f],
        merged_world(w0, w, kd0, kd, sel, act, hi), forall |g: u64| #[trigger] w.data.contains_key(g) ==> g <= hi,
        forall |g: u64| act < g <= hi ==> #[trigger] w.data.contains_key(g) && w.data[g] == w1.data[g],
{
    reveal(merge_state);
    reveal(del_state);
    reveal(stats_rel);
    assert forall |g: u64| act < g <= hi implies #[trigger] w.data.contains_key(g) && w.data[g] == w1.data[g] by {
        assert(out_ok(kd, w1, g));
        assert(!sel.contains(g));
    }
    let lo = (act + 1) as u64;
    assert forall |f: u64| sel.contains(f) implies !w.data.contains_key(f) && !w.hint.contains_key(f) by {
        assert(ids.to_set().contains(f));
        let j = choose |j: int| 0 <= j < ids.len() && ids[j] == f;
        assert(!w.data.contains_key(ids[j]));
    }
    assert(world_wf(w)) by {
        assert forall |g: u64| #[trigger] w.data.contains_key(g) implies w.ever.contains(g) && data_wf(w.data[g]) by { assert(w1.data.contains_key(g)); }
        assert forall |g: u64| #[trigger] w.ever.contains(g) implies g < 0x4000_0000_0000_0000 by { assert(w1.ever.contains(g)); }
    }
    // every key points into a surviving file
    assert forall |k: Bytes| kd.contains_key(k) implies loc_ok(w, k, #[trigger] kd[k]) && val_at(w, kd[k]) == val_at(w1, kd[k]) by {
        assert(kd0.dom().contains(k));
        assert(keys.to_set().contains(k));
        let j = choose |j: int| 0 <= j < keys.len() && keys[j] == k;
        assert(!sel.contains(kd[keys[j]].fileid));
        assert(loc_ok(w1, k, kd[k]));
        assert(w1.data.contains_key(kd[k].fileid));
        assert(w.data.contains_key(kd[k].fileid));
    }
    assert(model(kd, w) =~= model(kd, w1));
    assert forall |g: u64| w.ever.contains(g) implies g <= hi by { assert(w1.ever.contains(g)); }
    // accounting
    assert forall |f: u64| #[trigger] st.contains_key(f) implies w.data.contains_key(f) by {
        assert(st1.contains_key(f)); assert(w1.data.contains_key(f));
        if sel.contains(f) {
            assert(ids.to_set().contains(f));
            let j = choose |j: int| 0 <= j < ids.len() && ids[j] == f;
            assert(!st.contains_key(ids[j]));
        }
    }
    assert forall |f: u64| #[trigger] w.data.contains_key(f) implies
        stat_rel(stat_of(st, f), kd, f, w.data[f].recs, 0, 0, 0, false) && (exact ==> stat_rel(stat_of(st, f), kd, f, w.data[f].recs, 0, 0, 0, true)) by {
        assert(w1.data.contains_key(f));
        assert(!sel.contains(f));
        assert(stat_of(st, f) == stat_of(st1, f)) by { if st1.contains_key(f) { assert(st.contains_key(f)); } else { if st.contains_key(f) { assert(st1.contains_key(f)); } } }
        if f <= act {
        } else {
            assert(lo <= f <= hi);
            assert(out_ok(kd, w1, f));
            assert forall |x: int| 0 <= x < w.data[f].recs.len() implies kd.contains_key((#[trigger] w.data[f].recs[x]).key) && kd[w.data[f].recs[x].key] == entry_of(f, w.data[f].recs[x]) by {
                let r = w1.data[f].recs[x];
            }
            lemma_all_live_counts(kd, f, w.data[f].recs);
        }
    }
    assert forall |f: u64| #[trigger] w.data.contains_key(f) && w0.data.contains_key(f) implies w.data[f] == w0.data[f] by {
        assert(w0.ever.contains(f));
        assert(w1.data.contains_key(f));
    }
    // the facts the recovery theorem needs
    assert forall |g: u64| #[trigger] w.data.contains_key(g) implies g <= hi by { assert(w1.data.contains_key(g)); }
    assert forall |g: u64| #[trigger] w0.data.contains_key(g) implies g <= act by { assert(w0.ever.contains(g)); }
    assert forall |id: u64| id <= act implies (#[trigger] w.data.contains_key(id)) == (w0.data.contains_key(id) && !sel.contains(id)) by {
        assert(w1.data.contains_key(id) == w0.data.contains_key(id));
        if w.data.contains_key(id) { assert(w1.data.contains_key(id)); }
    }
    assert forall |id: u64| id <= act && #[trigger] w.data.contains_key(id) implies w.data[id] == w0.data[id]
            && w.hint.contains_key(id) == w0.hint.contains_key(id) && (w0.hint.contains_key(id) ==> w.hint[id] == w0.hint[id]) by {
        assert(w1.data.contains_key(id));
        assert(!sel.contains(id));
        assert(w1.hint.contains_key(id) == w0.hint.contains_key(id));
        if w1.hint.contains_key(id) { assert(w.hint.contains_key(id)); }
        if w.hint.contains_key(id) { assert(w1.hint.contains_key(id)); }
    }
    assert forall |g: u64| act < g <= hi implies #[trigger] out_ok(kd, w, g) by {
        assert(out_ok(kd, w1, g));
        assert(!sel.contains(g));
        assert(w.data.contains_key(g)); assert(w.hint.contains_key(g));
    }
    assert forall |k: Bytes| #[trigger] kd0.contains_key(k) && !sel.contains(kd0[k].fileid) implies kd[k] == kd0[k] by {
        assert(kd.dom().contains(k)); assert(kd.contains_key(k));
    }
    assert forall |k: Bytes| #[trigger] kd0.contains_key(k) && sel.contains(kd0[k].fileid) implies act < kd[k].fileid <= hi by {
        assert(kd.dom().contains(k)); assert(kd.contains_key(k));
        assert(keys.to_set().contains(k));
        let j = choose |j: int| 0 <= j < keys.len() && keys[j] == k;
        assert(!sel.contains(kd[keys[j]].fileid));
    }
    // hint files
    if hints_ok(w0) {
        assert forall |id: u64| #[trigger] w.hint.contains_key(id) implies hint_ok(w, id) by {
            assert(w1.hint.contains_key(id));
            assert(w.data.contains_key(id));
            assert(w1.data.contains_key(id));
            if id <= act {
                assert(w0.hint.contains_key(id));
                assert(hint_ok(w0, id));
                assert(w0.data.contains_key(id));
            } else {
                assert(lo <= id <= hi);
                assert(out_ok(kd, w1, id));
            }
        }
    }
}

/// C09: fsync of the current merge outputs changes only their `synced` counters; everything the merge loop maintains
/// is about records, so it carries over
proof fn lemma_merge_synced(kd0: Map<Bytes, KeyDirEntry>, st0: Map<u64, LogStatistics>, w0: &World, sel: Set<u64>, act: u64, keys: Seq<Bytes>, exact: bool,
                            kd: Map<Bytes, KeyDirEntry>, st: Map<u64, LogStatistics>, w: &World, i: int, hi: u64, w2: &World)
    requires
        merge_state(kd0, st0, w0, sel, act, keys, exact, kd, st, w, i, hi), world_wf(w), index_ok(kd, w),
        w2.ever == w.ever, w2.data.dom() == w.data.dom(), w2.hint.dom() == w.hint.dom(),
        forall |f: u64| f != hi && #[trigger] w.data.contains_key(f) ==> w2.data[f] == w.data[f],
        forall |f: u64| f != hi && #[trigger] w.hint.contains_key(f) ==> w2.hint[f] == w.hint[f],
        w.data.contains_key(hi) ==> w2.data[hi].recs == w.data[hi].recs && w2.data[hi].size == w.data[hi].size && w2.data[hi].torn == w.data[hi].torn
            && w2.data[hi].synced <= w2.data[hi].recs.len(),
        w.hint.contains_key(hi) ==> w2.hint[hi].recs == w.hint[hi].recs && w2.hint[hi].torn == w.hint[hi].torn,
    ensures
        merge_state(kd0, st0, w0, sel, act, keys, exact, kd, st, w2, i, hi),
        world_wf(w2), index_ok(kd, w2), model(kd, w2) == model(kd, w),
{
    reveal(merge_state);
    let lo = (act + 1) as u64;
    assert(world_wf(w2)) by {
        assert forall |g: u64| #[trigger] w2.data.contains_key(g) implies w2.ever.contains(g) && data_wf(w2.data[g]) by {
            assert(w.data.dom().contains(g)); assert(w.data.contains_key(g)); assert(data_wf(w.data[g]));
        }
        assert forall |g: u64| #[trigger] w2.hint.contains_key(g) implies w2.data.contains_key(g) by {
            assert(w.hint.dom().contains(g)); assert(w.hint.contains_key(g)); assert(w.data.contains_key(g)); assert(w2.data.dom().contains(g));
        }
    }
    assert forall |k: Bytes| kd.contains_key(k) implies loc_ok(w2, k, #[trigger] kd[k]) && val_at(w2, kd[k]) == val_at(w, kd[k]) by {
        assert(loc_ok(w, k, kd[k]));
        assert(w.data.contains_key(kd[k].fileid));
        assert(w2.data.dom().contains(kd[k].fileid));
    }
    assert(model(kd, w2) =~= model(kd, w));
    assert forall |f: u64| f <= act implies (#[trigger] w2.data.contains_key(f) == w0.data.contains_key(f)) && (w0.data.contains_key(f) ==> w2.data[f] == w0.data[f]) by {
        assert(w.data.contains_key(f) == w0.data.contains_key(f));
        assert(w2.data.contains_key(f) == w2.data.dom().contains(f));
        assert(w.data.contains_key(f) == w.data.dom().contains(f));
    }
    assert forall |f: u64| f <= act implies (#[trigger] w2.hint.contains_key(f) == w0.hint.contains_key(f)) && (w0.hint.contains_key(f) ==> w2.hint[f] == w0.hint[f]) by {
        assert(w.hint.contains_key(f) == w0.hint.contains_key(f));
        assert(w2.hint.contains_key(f) == w2.hint.dom().contains(f));
        assert(w.hint.contains_key(f) == w.hint.dom().contains(f));
    }
    assert forall |g: u64| #[trigger] w2.data.contains_key(g) implies g <= hi by { assert(w.data.dom().contains(g)); assert(w.data.contains_key(g)); }
    assert forall |g: u64| lo <= g <= hi implies #[trigger] out_ok(kd, w2, g) && all_live_stat(stat_of(st, g), w2.data[g].recs.len()) by {
        assert(out_ok(kd, w, g));
        assert(w2.data.dom().contains(g)); assert(w2.hint.dom().contains(g));
    }
    assert forall |f: u64| #[trigger] st.contains_key(f) implies w2.data.contains_key(f) by { assert(w.data.contains_key(f)); assert(w2.data.dom().contains(f)); }
    assert forall |f: u64| f <= act && !sel.contains(f) && #[trigger] w2.data.contains_key(f) implies
            stat_of(st, f) == stat_of(st0, f) && stat_rel(stat_of(st, f), kd, f, w2.data[f].recs, 0, 0, 0, false)
            && (exact ==> stat_rel(stat_of(st, f), kd, f, w2.data[f].recs, 0, 0, 0, true)) by {
        assert(w.data.dom().contains(f)); assert(w.data.contains_key(f));
    }
}

// ------------------------------ C13: the size invariant of the copy loop ------------------------------
/// what has been written to the outputs so far == the bytes that became dead in the selected files
spec fn size_inv(kd0: Map<Bytes, KeyDirEntry>, w0: &World, ids: Seq<u64>, act: u64, kd: Map<Bytes, KeyDirEntry>, w: &World, hi: u64) -> bool {
    range_size(w, act + 1, hi as int) + sum_dead(kd0, w0, ids) == sum_dead(kd, w0, ids)
}
spec fn ids_ok(w0: &World, sel: Set<u64>, ids: Seq<u64>) -> bool {
    ids.no_duplicates() && ids.to_set() == sel && forall |i: int| 0 <= i < ids.len() ==> w0.data.contains_key(#[trigger] ids[i])
}
proof fn lemma_ids_ok(st0: Map<u64, LogStatistics>, kd0: Map<Bytes, KeyDirEntry>, w0: &World, sel: Set<u64>, ids: Seq<u64>)
    requires stats_rel(st0, kd0, w0, 0, 0, 0, 0, false), forall |g: u64| sel.contains(g) ==> st0.contains_key(g), ids.no_duplicates(), ids.to_set() == sel
    ensures ids_ok(w0, sel, ids)
{
    reveal(stats_rel);
    assert forall |i: int| 0 <= i < ids.len() implies w0.data.contains_key(#[trigger] ids[i]) by {
        assert(ids.to_set().contains(ids[i]));
        assert(st0.contains_key(ids[i]));
    }
}
proof fn lemma_size_init(kd0: Map<Bytes, KeyDirEntry>, w0: &World, ids: Seq<u64>, act: u64, w: &World)
    requires w.data.contains_key((act + 1) as u64), w.data[(act + 1) as u64].recs.len() == 0, act + 1 <= u64::MAX
    ensures size_inv(kd0, w0, ids, act, kd0, w, (act + 1) as u64)
{
    assert(range_size(w, act + 1, act as int) == 0);
    assert(fsize(w.data[(act + 1) as u64].recs) == 0);
    assert(range_size(w, act + 1, act + 1) == range_size(w, act + 1, act as int) + fsize(w.data[(act + 1) as u64].recs));
}
/// one copied entry: the output grows by the record, the selected files lose it
proof fn lemma_size_copy(kd0: Map<Bytes, KeyDirEntry>, st0: Map<u64, LogStatistics>, w0: &World, sel: Set<u64>, act: u64, keys: Seq<Bytes>, exact: bool,
                         kd: Map<Bytes, KeyDirEntry>, st: Map<u64, LogStatistics>, w: &World, i: int, hi: u64, w2: &World, ids: Seq<u64>, k: Bytes, rn: Rec)
    requires
        merge_state(kd0, st0, w0, sel, act, keys, exact, kd, st, w, i, hi), world_wf(w0), world_wf(w), index_ok(kd, w), ids_ok(w0, sel, ids),
        kd.contains_key(k), sel.contains(kd[k].fileid), rn.len == kd[k].len,
        w.data.contains_key(hi), w2.data[hi].recs == w.data[hi].recs.push(rn),
        forall |g: u64| g != hi && w.data.contains_key(g) ==> (#[trigger] w2.data[g]).recs == w.data[g].recs,
        size_inv(kd0, w0, ids, act, kd, w, hi),
    ensures
        size_inv(kd0, w0, ids, act, kd.insert(k, entry_of(hi, rn)), w2, hi),
{
    reveal(merge_state);
    let lo = (act + 1) as u64;
    let kd2 = kd.insert(k, entry_of(hi, rn));
    let f = kd[k].fileid;
    // the record k points at lives in an old file, which the merge has not touched
    assert(loc_ok(w, k, kd[k]));
    assert(f <= act);
    assert(w.data.contains_key(f) == w0.data.contains_key(f));
    assert(w.data[f] == w0.data[f]);
    assert(loc_ok(w0, k, kd[k]));
    assert forall |x: int| 0 <= x < ids.len() implies #[trigger] ids[x] != kd2[k].fileid by {
        assert(ids.to_set().contains(ids[x])); assert(sel.contains(ids[x])); assert(ids[x] <= act);
    }
    lemma_sum_dead_change(kd, kd2, w0, ids, k);
    assert(ids.to_set().contains(f));
    assert(ids.contains(f));
    // the outputs
    lemma_fsize_push(w.data[hi].recs, rn);
    assert(range_size(w2, act + 1, hi as int) == range_size(w2, act + 1, hi - 1) + fsize(w2.data[hi].recs));
    assert(range_size(w, act + 1, hi as int) == range_size(w, act + 1, hi - 1) + fsize(w.data[hi].recs));
    assert forall |g: u64| act + 1 <= g <= hi - 1 implies (#[trigger] w2.data[g]).recs == w.data[g].recs by {
        assert(out_ok(kd, w, g));
    }
    lemma_range_same(w, w2, act + 1, hi - 1);
}
/// fsync of the current outputs leaves every record where it is
proof fn lemma_size_same(kd0: Map<Bytes, KeyDirEntry>, st0: Map<u64, LogStatistics>, w0: &World, sel: Set<u64>, act: u64, keys: Seq<Bytes>, exact: bool,
                         kd: Map<Bytes, KeyDirEntry>, st: Map<u64, LogStatistics>, w: &World, i: int, hi: u64, w2: &World, ids: Seq<u64>)
    requires
        merge_state(kd0, st0, w0, sel, act, keys, exact, kd, st, w, i, hi), size_inv(kd0, w0, ids, act, kd, w, hi),
        forall |f: u64| f != hi && #[trigger] w.data.contains_key(f) ==> w2.data[f] == w.data[f],
        w.data.contains_key(hi) ==> w2.data[hi].recs == w.data[hi].recs,
    ensures size_inv(kd0, w0, ids, act, kd, w2, hi)
{
    reveal(merge_state);
    assert forall |g: u64| act + 1 <= g <= hi implies (#[trigger] w2.data[g]).recs == w.data[g].recs by {
        assert(out_ok(kd, w, g));
    }
    lemma_range_same(w, w2, act + 1, hi as int);
}
/// opening the next (empty) output
proof fn lemma_size_rollover(kd0: Map<Bytes, KeyDirEntry>, st0: Map<u64, LogStatistics>, w0: &World, sel: Set<u64>, act: u64, keys: Seq<Bytes>, exact: bool,
                             kd: Map<Bytes, KeyDirEntry>, st: Map<u64, LogStatistics>, w: &World, i: int, hi: u64, w2: &World, ids: Seq<u64>)
    requires
        merge_state(kd0, st0, w0, sel, act, keys, exact, kd, st, w, i, hi), size_inv(kd0, w0, ids, act, kd, w, hi), hi + 1 < 0x4000_0000_0000_0000,
        w2.data == w.data.insert((hi + 1) as u64, empty_data()),
    ensures size_inv(kd0, w0, ids, act, kd, w2, (hi + 1) as u64)
{
    reveal(merge_state);
    assert forall |g: u64| act + 1 <= g <= hi implies (#[trigger] w2.data[g]).recs == w.data[g].recs by {
        assert(out_ok(kd, w, g));
    }
    lemma_range_same(w, w2, act + 1, hi as int);
    assert(fsize(w2.data[(hi + 1) as u64].recs) == 0);
    assert(range_size(w2, act + 1, hi + 1) == range_size(w2, act + 1, hi as int) + fsize(w2.data[(hi + 1) as u64].recs));
}
/// at the end of the copy loop nothing in the selected files is live any more
proof fn lemma_size_finish(kd0: Map<Bytes, KeyDirEntry>, st0: Map<u64, LogStatistics>, w0: &World, sel: Set<u64>, act: u64, keys: Seq<Bytes>, exact: bool,
                           kd: Map<Bytes, KeyDirEntry>, st: Map<u64, LogStatistics>, w: &World, hi: u64, ids: Seq<u64>)
    requires
        merge_state(kd0, st0, w0, sel, act, keys, exact, kd, st, w, keys.len() as int, hi), keys.to_set() == kd0.dom(), ids_ok(w0, sel, ids),
        size_inv(kd0, w0, ids, act, kd, w, hi),
    ensures
        range_size(w, act + 1, hi as int) + sum_dead(kd0, w0, ids) == sum_size(w0, ids),
{
    reveal(merge_state);
    assert forall |k: Bytes, x: int| #[trigger] kd.contains_key(k) && 0 <= x < ids.len() implies kd[k].fileid != #[trigger] ids[x] by {
        assert(kd0.dom().contains(k));
        assert(keys.to_set().contains(k));
        let j = choose |j: int| 0 <= j < keys.len() && keys[j] == k;
        assert(!sel.contains(kd[keys[j]].fileid));
        assert(ids.to_set().contains(ids[x]));
    }
    lemma_sum_dead_le(kd, w0, ids);
}

/// C13: putting the pieces together after the deletion loop and the creation of the new active file
proof fn lemma_merge_sizes(w0: &World, w1: &World, w3: &World, w: &World, kd0: Map<Bytes, KeyDirEntry>, kd: Map<Bytes, KeyDirEntry>, sel: Set<u64>, act: u64, hi: u64, ids: Seq<u64>)
    requires
        merged_world(w0, w3, kd0, kd, sel, act, hi), ids_ok(w0, sel, ids),
        forall |g: u64| #[trigger] w3.data.contains_key(g) ==> g <= hi,
        forall |g: u64| act < g <= hi ==> #[trigger] w3.data.contains_key(g) && w3.data[g] == w1.data[g],
        range_size(w1, act + 1, hi as int) + sum_dead(kd0, w0, ids) == sum_size(w0, ids),
        w.data == w3.data.insert((hi + 1) as u64, empty_data()),
    ensures
        merge_sizes(w0, w, kd0, ids, (act + 1) as u64, hi),
{
    let lo = (act + 1) as u64;
    let nh = (hi + 1) as u64;
    assert forall |g: u64| act + 1 <= g <= hi implies (#[trigger] w.data[g]).recs == w1.data[g].recs by {
        assert(w3.data.contains_key(g));
    }
    lemma_range_same(w1, w, act + 1, hi as int);
    assert(fsize(w.data[nh].recs) == 0);
    assert forall |f: u64| (#[trigger] w0.data.contains_key(f) && !w.data.contains_key(f)) <==> ids.contains(f) by {
        if ids.contains(f) {
            let x = choose |x: int| 0 <= x < ids.len() && ids[x] == f;
            assert(w0.data.contains_key(ids[x]));
            assert(ids.to_set().contains(f));
            assert(f <= act);
            assert(w3.data.contains_key(f) == (w0.data.contains_key(f) && !sel.contains(f)));
        }
        if w0.data.contains_key(f) && !w.data.contains_key(f) {
            assert(f <= act);
            assert(w3.data.contains_key(f) == (w0.data.contains_key(f) && !sel.contains(f)));
            assert(!w3.data.contains_key(f));
            assert(sel.contains(f));
            assert(ids.to_set().contains(f));
        }
    }
    assert forall |f: u64| (#[trigger] w.data.contains_key(f) && !w0.data.contains_key(f)) <==> lo <= f <= hi + 1 by {
        if lo <= f <= hi + 1 {
            if f != nh { assert(w3.data.contains_key(f)); }
            if w0.data.contains_key(f) { assert(f <= act); }
        }
        if w.data.contains_key(f) && !w0.data.contains_key(f) {
            if f != nh {
                assert(w3.data.contains_key(f));
                assert(f <= hi);
                if f <= act { assert(w3.data.contains_key(f) == (w0.data.contains_key(f) && !sel.contains(f))); }
            }
        }
    }
}

/// C14: facts about ids the copy loop maintains (exported from the opaque loop state)
proof fn lemma_merge_top(kd0: Map<Bytes, KeyDirEntry>, st0: Map<u64, LogStatistics>, w0: &World, sel: Set<u64>, act: u64, keys: Seq<Bytes>, exact: bool,
                         kd: Map<Bytes, KeyDirEntry>, st: Map<u64, LogStatistics>, w: &World, i: int, hi: u64)
    requires merge_state(kd0, st0, w0, sel, act, keys, exact, kd, st, w, i, hi)
    ensures w.data.contains_key(hi), w.hint.contains_key(hi), act < hi, forall |g: u64| w.ever.contains(g) ==> g <= hi, forall |g: u64| sel.contains(g) ==> g <= act,
            forall |g: u64| #[trigger] w.data.contains_key(g) ==> g <= hi,
{
    reveal(merge_state);
    assert(out_ok(kd, w, hi));
}

// ------------------------------ C03 for merge: facts exported from the opaque loop state ------------------------------
/// after the copied record has been flushed into the current output (whose hint file does not list it yet) start-up would
/// still rebuild what it would have rebuilt before: the output is read through its hint file
proof fn lemma_merge_mid_copy(kd0: Map<Bytes, KeyDirEntry>, st0: Map<u64, LogStatistics>, w0: &World, sel: Set<u64>, act: u64, keys: Seq<Bytes>, exact: bool,
                              kd: Map<Bytes, KeyDirEntry>, st: Map<u64, LogStatistics>, w: &World, i: int, hi: u64, w2: &World, rn: Rec)
    requires
        merge_state(kd0, st0, w0, sel, act, keys, exact, kd, st, w, i, hi), world_wf(w), index_ok(kd, w),
        w2.data.dom() == w.data.dom(), w2.hint == w.hint,
        forall |g: u64| g != hi && w.data.contains_key(g) ==> #[trigger] w2.data[g] == w.data[g],
        w.data.contains_key(hi) ==> w2.data[hi].recs == w.data[hi].recs.push(rn) && rn.pos == w.data[hi].size && rn.len > 0,
    ensures
        spec_recover(w2) == spec_recover(w), world_extends(w, w2), model(kd, w2) == model(kd, w), index_ok(kd, w2),
{
    reveal(merge_state);
    assert(out_ok(kd, w, hi));
    assert forall |id: u64| id < ID_BOUND implies #[trigger] file_log(w, id) == file_log(w2, id) by {
        if w.data.contains_key(id) { assert(w2.data.dom().contains(id)); } else { assert(!w2.data.dom().contains(id)); }
    }
    lemma_recover_same_logs(w, w2);
    lemma_append_extends(w, w2, hi, rn);
    lemma_index_mono(w, w2, kd);
}
proof fn lemma_merge_old_hints(kd0: Map<Bytes, KeyDirEntry>, st0: Map<u64, LogStatistics>, w0: &World, sel: Set<u64>, act: u64, keys: Seq<Bytes>, exact: bool,
                               kd: Map<Bytes, KeyDirEntry>, st: Map<u64, LogStatistics>, w: &World, i: int, hi: u64)
    requires merge_state(kd0, st0, w0, sel, act, keys, exact, kd, st, w, i, hi), hints_ok(w0)
    ensures forall |f: u64| sel.contains(f) && #[trigger] w.hint.contains_key(f) ==> hint_ok(w, f)
{
    reveal(merge_state);
    assert forall |f: u64| sel.contains(f) && #[trigger] w.hint.contains_key(f) implies hint_ok(w, f) by {
        assert(f <= act);
        assert(w.hint.contains_key(f) == w0.hint.contains_key(f));
        assert(hint_ok(w0, f));
        assert(w0.data.contains_key(f));
        assert(w.data.contains_key(f) == w0.data.contains_key(f));
    }
}
proof fn lemma_merge_no_sel_keys(kd0: Map<Bytes, KeyDirEntry>, st0: Map<u64, LogStatistics>, w0: &World, sel: Set<u64>, act: u64, keys: Seq<Bytes>, exact: bool,
                                 kd: Map<Bytes, KeyDirEntry>, st: Map<u64, LogStatistics>, w: &World, hi: u64)
    requires merge_state(kd0, st0, w0, sel, act, keys, exact, kd, st, w, keys.len() as int, hi), keys.to_set() == kd0.dom()
    ensures forall |k: Bytes| #[trigger] kd.contains_key(k) ==> !sel.contains(kd[k].fileid)
{
    reveal(merge_state);
    assert forall |k: Bytes| #[trigger] kd.contains_key(k) implies !sel.contains(kd[k].fileid) by {
        assert(kd0.dom().contains(k));
        assert(keys.to_set().contains(k));
        let j = choose |j: int| 0 <= j < keys.len() && keys[j] == k;
        assert(!sel.contains(kd[keys[j]].fileid));
    }
}
