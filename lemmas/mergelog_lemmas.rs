// ------------------------------ merge at the level of the recovery log (verified, not trusted) ------------------------------
spec fn entry_l(l: LRec) -> KeyDirEntry { KeyDirEntry { fileid: l.f, len: l.len, pos: l.pos, tstamp: l.tstamp } }
/// the last record for key k
spec fn last_for(log: Seq<LRec>, k: Bytes) -> Option<LRec>
    decreases log.len()
{
    if log.len() == 0 { None } else if log.last().key == k { Some(log.last()) } else { last_for(log.drop_last(), k) }
}
/// what a key is bound to after replaying a log whose last record for it is `o`
spec fn bound_of(o: Option<LRec>) -> Option<KeyDirEntry> {
    match o { Some(l) => if l.is_val { Some(entry_l(l)) } else { None }, None => None }
}
/// bridge: the recovered key directory binds each key according to its LAST record
proof fn lemma_bridge(log: Seq<LRec>, k: Bytes)
    ensures ({
        let m = recover_from(Map::<Bytes, KeyDirEntry>::empty(), log);
        &&& m.contains_key(k) == (bound_of(last_for(log, k)) is Some)
        &&& m.contains_key(k) ==> m[k] == bound_of(last_for(log, k))->0
    })
    decreases log.len()
{
    if log.len() > 0 { lemma_bridge(log.drop_last(), k); }
}
proof fn lemma_last_member(log: Seq<LRec>, k: Bytes)
    ensures last_for(log, k) matches Some(l) ==> l.key == k && exists |i: int| 0 <= i < log.len() && #[trigger] log[i] == l,
            last_for(log, k) is None ==> forall |i: int| 0 <= i < log.len() ==> (#[trigger] log[i]).key != k,
    decreases log.len()
{
    if log.len() > 0 {
        if log.last().key == k {
            assert(log[log.len() - 1] == log.last());
        } else {
            lemma_last_member(log.drop_last(), k);
            if last_for(log.drop_last(), k) is Some {
                let l = last_for(log.drop_last(), k)->0;
                let i = choose |i: int| 0 <= i < log.drop_last().len() && #[trigger] log.drop_last()[i] == l;
                assert(log[i] == l);
            } else {
                assert forall |i: int| 0 <= i < log.len() implies (#[trigger] log[i]).key != k by {
                    if i < log.len() - 1 { assert(log.drop_last()[i] == log[i]); }
                }
            }
        }
    }
}
proof fn lemma_last_append(a: Seq<LRec>, b: Seq<LRec>, k: Bytes)
    ensures last_for(a + b, k) == (if last_for(b, k) is Some { last_for(b, k) } else { last_for(a, k) })
    decreases b.len()
{
    if b.len() == 0 {
        assert(a + b =~= a);
    } else {
        assert((a + b).drop_last() =~= a + b.drop_last());
        assert((a + b).last() == b.last());
        lemma_last_append(a, b.drop_last(), k);
    }
}
/// remove the records of the files in `sel`, keeping the order
spec fn keep_log(log: Seq<LRec>, sel: Set<u64>) -> Seq<LRec>
    decreases log.len()
{
    if log.len() == 0 { Seq::empty() }
    else if sel.contains(log.last().f) { keep_log(log.drop_last(), sel) }
    else { keep_log(log.drop_last(), sel).push(log.last()) }
}
proof fn lemma_keep_append(a: Seq<LRec>, b: Seq<LRec>, sel: Set<u64>)
    ensures keep_log(a + b, sel) == keep_log(a, sel) + keep_log(b, sel)
    decreases b.len()
{
    if b.len() == 0 {
        assert(a + b =~= a);
        assert(keep_log(a, sel) + Seq::<LRec>::empty() =~= keep_log(a, sel));
    } else {
        assert((a + b).drop_last() =~= a + b.drop_last());
        assert((a + b).last() == b.last());
        lemma_keep_append(a, b.drop_last(), sel);
        if !sel.contains(b.last().f) {
            assert((keep_log(a, sel) + keep_log(b.drop_last(), sel)).push(b.last()) =~= keep_log(a, sel) + keep_log(b.drop_last(), sel).push(b.last()));
        }
    }
}
/// a log all of whose records belong to one file is kept whole or dropped whole
proof fn lemma_keep_one_file(log: Seq<LRec>, sel: Set<u64>, id: u64)
    requires forall |i: int| 0 <= i < log.len() ==> (#[trigger] log[i]).f == id
    ensures keep_log(log, sel) == (if sel.contains(id) { Seq::<LRec>::empty() } else { log })
    decreases log.len()
{
    if log.len() > 0 {
        assert forall |i: int| 0 <= i < log.drop_last().len() implies (#[trigger] log.drop_last()[i]).f == id by { assert(log.drop_last()[i] == log[i]); }
        lemma_keep_one_file(log.drop_last(), sel, id);
        assert(log[log.len() - 1] == log.last());
        if !sel.contains(id) { assert(log.drop_last().push(log.last()) =~= log); }
    }
}
proof fn lemma_last_keep_survivor(log: Seq<LRec>, sel: Set<u64>, k: Bytes)
    requires last_for(log, k) matches Some(l) && !sel.contains(l.f)
    ensures last_for(keep_log(log, sel), k) == last_for(log, k)
    decreases log.len()
{
    if log.len() > 0 {
        if log.last().key == k {
            assert(keep_log(log, sel).last() == log.last());
        } else {
            lemma_last_keep_survivor(log.drop_last(), sel, k);
            if !sel.contains(log.last().f) {
                assert(keep_log(log, sel).drop_last() =~= keep_log(log.drop_last(), sel));
            }
        }
    }
}
proof fn lemma_last_keep_none(log: Seq<LRec>, sel: Set<u64>, k: Bytes)
    requires last_for(log, k) is None
    ensures last_for(keep_log(log, sel), k) is None
    decreases log.len()
{
    if log.len() > 0 {
        lemma_last_keep_none(log.drop_last(), sel, k);
        if !sel.contains(log.last().f) {
            assert(keep_log(log, sel).drop_last() =~= keep_log(log.drop_last(), sel));
        }
    }
}

/// THE ONE THING A MERGE NEEDS AND THE CODE DOES NOT GUARANTEE (D9): no tombstone that is removed with its file is the
/// only thing that shadows a value in a surviving older file
spec fn tombstone_safe(log0: Seq<LRec>, sel: Set<u64>) -> bool {
    forall |k: Bytes| (#[trigger] last_for(log0, k) matches Some(l) && !l.is_val && sel.contains(l.f)) ==> bound_of(last_for(keep_log(log0, sel), k)) is None
}

/// The merge theorem at log level: removing the selected files and appending the outputs (one value record per
/// re-pointed key, located where the new key directory says) recovers exactly the new key directory.
proof fn lemma_merge_recover_log(log0: Seq<LRec>, sel: Set<u64>, out: Seq<LRec>, kd0: Map<Bytes, KeyDirEntry>, kd1: Map<Bytes, KeyDirEntry>)
    requires
        recover_from(Map::<Bytes, KeyDirEntry>::empty(), log0) == kd0, kd1.dom() == kd0.dom(),
        forall |i: int| 0 <= i < out.len() ==> (#[trigger] out[i]).is_val && kd1.contains_key(out[i].key) && kd1[out[i].key] == entry_l(out[i]),
        forall |k: Bytes| #[trigger] kd0.contains_key(k) && !sel.contains(kd0[k].fileid) ==> kd1[k] == kd0[k],
        forall |k: Bytes| #[trigger] kd0.contains_key(k) && sel.contains(kd0[k].fileid) ==> exists |i: int| 0 <= i < out.len() && (#[trigger] out[i]).key == k,
        tombstone_safe(log0, sel),
    ensures recover_from(Map::<Bytes, KeyDirEntry>::empty(), keep_log(log0, sel) + out) == kd1
{
    let log1 = keep_log(log0, sel) + out;
    let m1 = recover_from(Map::<Bytes, KeyDirEntry>::empty(), log1);
    assert forall |k: Bytes| (#[trigger] m1.dom().contains(k)) == kd1.dom().contains(k) && (kd1.dom().contains(k) ==> m1[k] == kd1[k]) by {
        lemma_bridge(log1, k);
        lemma_bridge(log0, k);
        lemma_last_append(keep_log(log0, sel), out, k);
        lemma_last_member(out, k);
        assert(kd1.contains_key(k) == kd0.contains_key(k)) by { assert(kd1.dom().contains(k) == kd0.dom().contains(k)); }
        if last_for(out, k) is Some {
            let l = last_for(out, k)->0;
            let i = choose |i: int| 0 <= i < out.len() && #[trigger] out[i] == l;
            assert(out[i].is_val && kd1.contains_key(out[i].key) && kd1[out[i].key] == entry_l(out[i]));
        } else {
            // no output record for k: k was not re-pointed
            if kd0.contains_key(k) {
                if sel.contains(kd0[k].fileid) {
                    let i = choose |i: int| 0 <= i < out.len() && (#[trigger] out[i]).key == k;
                    assert(out[i].key != k);
                }
                let l0 = last_for(log0, k)->0;
                assert(l0.is_val && entry_l(l0) == kd0[k]);
                lemma_last_keep_survivor(log0, sel, k);
            } else {
                if last_for(log0, k) is None {
                    lemma_last_keep_none(log0, sel, k);
                } else {
                    let l0 = last_for(log0, k)->0;
                    assert(!l0.is_val);
                    if !sel.contains(l0.f) { lemma_last_keep_survivor(log0, sel, k); }
                }
            }
        }
    }
    assert(m1 =~= kd1);
}

// ---- from the World to the log ---------------------------------------------------------------------------
spec fn log_between(w: &World, m: nat, n: nat) -> Seq<LRec>
    decreases n
{
    if n <= m { Seq::empty() } else { log_between(w, m, (n - 1) as nat) + file_log(w, (n - 1) as u64) }
}
proof fn lemma_log_split(w: &World, m: nat, n: nat)
    requires m <= n
    ensures log_upto(w, n) == log_upto(w, m) + log_between(w, m, n)
    decreases n
{
    if n == m {
        assert(log_upto(w, m) + Seq::<LRec>::empty() =~= log_upto(w, m));
    } else {
        lemma_log_split(w, m, (n - 1) as nat);
        assert(log_upto(w, m) + (log_between(w, m, (n - 1) as nat) + file_log(w, (n - 1) as u64)) =~= (log_upto(w, m) + log_between(w, m, (n - 1) as nat)) + file_log(w, (n - 1) as u64));
    }
}
proof fn lemma_file_log_ids(w: &World, id: u64)
    ensures forall |i: int| 0 <= i < file_log(w, id).len() ==> (#[trigger] file_log(w, id)[i]).f == id
{
}
/// removing whole files (and leaving the others as they were) filters the log
proof fn lemma_keep_upto(w0: &World, w1: &World, sel: Set<u64>, n: nat)
    requires n <= u64::MAX,
             forall |id: u64| id < n ==> #[trigger] file_log(w1, id) == (if sel.contains(id) { Seq::<LRec>::empty() } else { file_log(w0, id) }),
    ensures log_upto(w1, n) == keep_log(log_upto(w0, n), sel)
    decreases n
{
    if n > 0 {
        let id = (n - 1) as u64;
        lemma_keep_upto(w0, w1, sel, (n - 1) as nat);
        lemma_keep_append(log_upto(w0, (n - 1) as nat), file_log(w0, id), sel);
        lemma_file_log_ids(w0, id);
        lemma_keep_one_file(file_log(w0, id), sel, id);
        assert(file_log(w1, id) == (if sel.contains(id) { Seq::<LRec>::empty() } else { file_log(w0, id) }));
    }
}
proof fn lemma_between_member(w: &World, m: nat, n: nat, g: u64, x: int)
    requires m <= g < n, 0 <= x < file_log(w, g).len(), n <= 0x1_0000_0000_0000_0000
    ensures exists |i: int| 0 <= i < log_between(w, m, n).len() && #[trigger] log_between(w, m, n)[i] == file_log(w, g)[x]
    decreases n
{
    let prev = log_between(w, m, (n - 1) as nat);
    if g == n - 1 {
        assert(log_between(w, m, n)[prev.len() + x] == file_log(w, g)[x]);
    } else {
        lemma_between_member(w, m, (n - 1) as nat, g, x);
        let i = choose |i: int| 0 <= i < prev.len() && #[trigger] prev[i] == file_log(w, g)[x];
        assert(log_between(w, m, n)[i] == prev[i]);
    }
}
proof fn lemma_between_forall(w: &World, m: nat, n: nat, good: spec_fn(LRec) -> bool)
    requires n <= 0x1_0000_0000_0000_0000, forall |g: u64, x: int| m <= g < n && 0 <= x < file_log(w, g).len() ==> good(#[trigger] file_log(w, g)[x])
    ensures forall |i: int| 0 <= i < log_between(w, m, n).len() ==> good(#[trigger] log_between(w, m, n)[i])
    decreases n
{
    if n > m {
        lemma_between_forall(w, m, (n - 1) as nat, good);
        let prev = log_between(w, m, (n - 1) as nat);
        let id = (n - 1) as u64;
        assert forall |i: int| 0 <= i < log_between(w, m, n).len() implies good(#[trigger] log_between(w, m, n)[i]) by {
            if i < prev.len() { assert(log_between(w, m, n)[i] == prev[i]); assert(good(prev[i])); }
            else {
                let x = i - prev.len();
                assert(0 <= x < file_log(w, id).len());
                assert(log_between(w, m, n)[i] == file_log(w, id)[x]);
                assert(m <= id < n);
                assert(good(file_log(w, id)[x]));
            }
        }
    }
}
proof fn lemma_rec_at_exists(recs: Seq<Rec>, p: u64)
    ensures rec_at(recs, p) matches Some(r) ==> exists |x: int| 0 <= x < recs.len() && #[trigger] recs[x] == r
    decreases recs.len()
{
    if recs.len() > 0 {
        if recs.last().pos == p {
            assert(recs[recs.len() - 1] == recs.last());
        } else {
            lemma_rec_at_exists(recs.drop_last(), p);
            if rec_at(recs.drop_last(), p) is Some {
                let r = rec_at(recs.drop_last(), p)->0;
                let x = choose |x: int| 0 <= x < recs.drop_last().len() && #[trigger] recs.drop_last()[x] == r;
                assert(recs[x] == r);
            }
        }
    }
}

/// what is known about the directory and the key directory when a merge has finished (w2 includes the new active file)
spec fn merged_world(w0: &World, w2: &World, kd0: Map<Bytes, KeyDirEntry>, kd1: Map<Bytes, KeyDirEntry>, sel: Set<u64>, act: u64, hi: u64) -> bool {
    &&& act < hi && hi + 1 <= ID_BOUND && world_wf(w2)
    &&& forall |g: u64| #[trigger] w0.data.contains_key(g) ==> g <= act
    &&& forall |id: u64| id <= act ==> (#[trigger] w2.data.contains_key(id)) == (w0.data.contains_key(id) && !sel.contains(id))
    &&& forall |id: u64| id <= act && #[trigger] w2.data.contains_key(id) ==> w2.data[id] == w0.data[id]
            && w2.hint.contains_key(id) == w0.hint.contains_key(id) && (w0.hint.contains_key(id) ==> w2.hint[id] == w0.hint[id])
    &&& forall |g: u64| act < g <= hi ==> #[trigger] out_ok(kd1, w2, g)
    &&& forall |g: u64| g > hi && #[trigger] w2.data.contains_key(g) ==> w2.data[g].recs.len() == 0 && !w2.hint.contains_key(g)
    &&& kd1.dom() == kd0.dom() && index_ok(kd1, w2)
    &&& forall |k: Bytes| #[trigger] kd0.contains_key(k) && !sel.contains(kd0[k].fileid) ==> kd1[k] == kd0[k]
    &&& forall |k: Bytes| #[trigger] kd0.contains_key(k) && sel.contains(kd0[k].fileid) ==> act < kd1[k].fileid <= hi
}

/// C05 (after a restart): the merged directory recovers exactly the merged key directory -- GIVEN tombstone_safe
proof fn lemma_merge_recover_world(w0: &World, w2: &World, kd0: Map<Bytes, KeyDirEntry>, kd1: Map<Bytes, KeyDirEntry>, sel: Set<u64>, act: u64, hi: u64)
    requires merged_world(w0, w2, kd0, kd1, sel, act, hi), spec_recover(w0) == kd0, tombstone_safe(full_log(w0), sel)
    ensures spec_recover(w2) == kd1
{
    let a1 = (act + 1) as nat;
    // the old part of the log
    assert forall |id: u64| a1 <= id < ID_BOUND implies !w0.data.contains_key(id) by { }
    assert forall |g: u64| #[trigger] w2.data.contains_key(g) implies g < ID_BOUND by { assert(w2.ever.contains(g)); }
    lemma_log_gap(w0, a1, ID_BOUND);
    assert forall |id: u64| id < a1 implies #[trigger] file_log(w2, id) == (if sel.contains(id) { Seq::<LRec>::empty() } else { file_log(w0, id) }) by {
        if w2.data.contains_key(id) { } else { }
    }
    lemma_keep_upto(w0, w2, sel, a1);
    lemma_log_split(w2, a1, ID_BOUND);
    let out = log_between(w2, a1, ID_BOUND);
    // every output record is a value at the place the new key directory says
    let good = |l: LRec| l.is_val && kd1.contains_key(l.key) && kd1[l.key] == entry_l(l);
    assert forall |g: u64, x: int| a1 <= g < ID_BOUND && 0 <= x < file_log(w2, g).len() implies good(#[trigger] file_log(w2, g)[x]) by {
        if g <= hi {
            assert(out_ok(kd1, w2, g));
            let r = w2.data[g].recs[x];
            assert(w2.hint[g].recs[x] == hrec_of(r));
        } else {
            if w2.data.contains_key(g) { assert(w2.data[g].recs.len() == 0); }
        }
    }
    lemma_between_forall(w2, a1, ID_BOUND, good);
    assert forall |i: int| 0 <= i < out.len() implies (#[trigger] out[i]).is_val && kd1.contains_key(out[i].key) && kd1[out[i].key] == entry_l(out[i]) by {
        assert(good(out[i]));
    }
    // every re-pointed key has its record among the outputs
    assert forall |k: Bytes| #[trigger] kd0.contains_key(k) && sel.contains(kd0[k].fileid) implies exists |i: int| 0 <= i < out.len() && (#[trigger] out[i]).key == k by {
        assert(kd1.dom().contains(k));
        let e = kd1[k];
        let g = e.fileid;
        assert(loc_ok(w2, k, e));
        assert(out_ok(kd1, w2, g));
        lemma_rec_at_exists(w2.data[g].recs, e.pos);
        let r = rec_at(w2.data[g].recs, e.pos)->0;
        let x = choose |x: int| 0 <= x < w2.data[g].recs.len() && #[trigger] w2.data[g].recs[x] == r;
        assert(w2.hint[g].recs[x] == hrec_of(r));
        assert(file_log(w2, g)[x].key == k);
        lemma_between_member(w2, a1, ID_BOUND, g, x);
        let i = choose |i: int| 0 <= i < out.len() && #[trigger] out[i] == file_log(w2, g)[x];
        assert(out[i].key == k);
    }
    lemma_merge_recover_log(full_log(w0), sel, out, kd0, kd1);
}

/// the new active file created at the end of a merge does not disturb what is known
proof fn lemma_merged_world_new_active(w0: &World, w3: &World, w2: &World, kd0: Map<Bytes, KeyDirEntry>, kd1: Map<Bytes, KeyDirEntry>, sel: Set<u64>, act: u64, hi: u64)
    requires merged_world(w0, w3, kd0, kd1, sel, act, hi), forall |g: u64| #[trigger] w3.data.contains_key(g) ==> g <= hi,
             w2.data == w3.data.insert((hi + 1) as u64, empty_data()), w2.hint == w3.hint, world_wf(w2), index_ok(kd1, w2), hi + 1 < ID_BOUND,
    ensures merged_world(w0, w2, kd0, kd1, sel, act, hi)
{
    let nh = (hi + 1) as u64;
    assert(!w3.hint.contains_key(nh)) by { if w3.hint.contains_key(nh) { assert(w3.data.contains_key(nh)); } }
    assert forall |g: u64| act < g <= hi implies #[trigger] out_ok(kd1, w2, g) by { assert(out_ok(kd1, w3, g)); }
    assert forall |g: u64| g > hi && #[trigger] w2.data.contains_key(g) implies w2.data[g].recs.len() == 0 && !w2.hint.contains_key(g) by {
        if g != nh { assert(w3.data.contains_key(g)); }
        else { }
        if w2.hint.contains_key(g) { assert(w3.hint.contains_key(g)); assert(w3.data.contains_key(g)); }
    }
    assert forall |id: u64| id <= act implies (#[trigger] w2.data.contains_key(id)) == (w0.data.contains_key(id) && !sel.contains(id)) by {
        assert(w3.data.contains_key(id) == (w0.data.contains_key(id) && !sel.contains(id)));
    }
    assert forall |id: u64| id <= act && #[trigger] w2.data.contains_key(id) implies w2.data[id] == w0.data[id]
            && w2.hint.contains_key(id) == w0.hint.contains_key(id) && (w0.hint.contains_key(id) ==> w2.hint[id] == w0.hint[id]) by {
        assert(w3.data.contains_key(id));
    }
}
/// D9 (OPEN KNOWN FINDING): this is NOT provable -- `Writer::merge` drops every tombstone of a selected file although an
/// older, unselected file may still hold the value it shadows.  It is isolated here so that every other way of breaking
/// C05 still shows up as its own failed obligation.
proof fn lemma_tombstone_safe(w0: &World, sel: Set<u64>, kd0: Map<Bytes, KeyDirEntry>)
    requires world_wf(w0), spec_recover(w0) == kd0
    ensures tombstone_safe(full_log(w0), sel)    //@[C05.tombstone_safe]
{
}
