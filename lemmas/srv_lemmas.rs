// ------------------------------ C06: a whole connection ------------------------------
// The input of a connection is read as a sequence of requests by repeatedly taking the first complete frame
// (frame_len / frame_val of unit resp, the same functions read_frame is verified against).
pub open spec fn first_cmd(d: Seq<u8>) -> Option<SCmd> {
    if canon(d, 0, max_fuel()) { spec_command(frame_val(d, 0, max_fuel())) } else { None }
}
pub open spec fn after_first(d: Seq<u8>) -> Seq<u8> { d.skip(frame_len(d, 0, max_fuel())->0) }
/// d starts with n well-formed requests
pub open spec fn requests(d: Seq<u8>, n: nat) -> bool
    decreases n
{
    n == 0 || (first_cmd(d) is Some && requests(after_first(d), (n - 1) as nat))
}
pub open spec fn rest_after(d: Seq<u8>, n: nat) -> Seq<u8>
    decreases n
{
    if n == 0 { d } else { rest_after(after_first(d), (n - 1) as nat) }
}
/// the replies to the first n requests of d, concatenated in order, starting from map m
pub open spec fn replies(m: Map<Seq<u8>, Seq<u8>>, d: Seq<u8>, n: nat) -> Seq<u8>
    decreases n
{
    if n == 0 { Seq::empty() } else {
        let c = first_cmd(d)->0;
        encode(reply(c, m)) + replies(effect(c, m), after_first(d), (n - 1) as nat)
    }
}
pub open spec fn map_after(m: Map<Seq<u8>, Seq<u8>>, d: Seq<u8>, n: nat) -> Map<Seq<u8>, Seq<u8>>
    decreases n
{
    if n == 0 { m } else { map_after(effect(first_cmd(d)->0, m), after_first(d), (n - 1) as nat) }
}

/// serving one more request extends everything at the END (the recursion above peels at the front)
#[verifier::spinoff_prover]
pub proof fn lemma_serve_step(m: Map<Seq<u8>, Seq<u8>>, d: Seq<u8>, k: nat, n: nat)
    requires requests(d, n), k < n
    ensures
        requests(rest_after(d, k), (n - k) as nat),
        first_cmd(rest_after(d, k)) is Some,
        rest_after(d, k + 1) == after_first(rest_after(d, k)),
        map_after(m, d, k + 1) == effect(first_cmd(rest_after(d, k))->0, map_after(m, d, k)),
        replies(m, d, k + 1) == replies(m, d, k) + encode(reply(first_cmd(rest_after(d, k))->0, map_after(m, d, k))),
    decreases k
{
    if k == 0 {
        assert(rest_after(d, 1) == rest_after(after_first(d), 0));
        assert(rest_after(after_first(d), 0) == after_first(d));
        assert(map_after(m, d, 1) == map_after(effect(first_cmd(d)->0, m), after_first(d), 0));
        assert(map_after(effect(first_cmd(d)->0, m), after_first(d), 0) == effect(first_cmd(d)->0, m));
        assert(replies(m, d, 1) =~= encode(reply(first_cmd(d)->0, m)) + replies(effect(first_cmd(d)->0, m), after_first(d), 0));
        assert(replies(m, d, 0) + encode(reply(first_cmd(d)->0, m)) =~= encode(reply(first_cmd(d)->0, m)));
        assert(replies(effect(first_cmd(d)->0, m), after_first(d), 0) =~= Seq::<u8>::empty());
        assert(replies(m, d, 1) =~= encode(reply(first_cmd(d)->0, m)));
    } else {
        let c = first_cmd(d)->0;
        let m1 = effect(c, m);
        let d1 = after_first(d);
        lemma_serve_step(m1, d1, (k - 1) as nat, (n - 1) as nat);
        assert(rest_after(d, k) == rest_after(d1, (k - 1) as nat));
        assert(rest_after(d, k + 1) == rest_after(d1, k));
        assert(map_after(m, d, k) == map_after(m1, d1, (k - 1) as nat));
        assert(map_after(m, d, k + 1) == map_after(m1, d1, k));
        assert(replies(m, d, k) == encode(reply(c, m)) + replies(m1, d1, (k - 1) as nat));
        let tail = replies(m1, d1, (k - 1) as nat);
        let last = encode(reply(first_cmd(rest_after(d1, (k - 1) as nat))->0, map_after(m1, d1, (k - 1) as nat)));
        assert(replies(m, d, k + 1) == encode(reply(c, m)) + replies(m1, d1, k));
        assert(replies(m1, d1, k) == tail + last);
        assert(encode(reply(c, m)) + (tail + last) =~= (encode(reply(c, m)) + tail) + last);
    }
}
pub proof fn lemma_requests_end(d: Seq<u8>, n: nat)
    requires requests(d, n)
    ensures requests(rest_after(d, n), 0)
    decreases n
{
    if n > 0 { lemma_requests_end(after_first(d), (n - 1) as nat); }
}

// ------------------------------ C06 at the level of commands ------------------------------
/// a well-formed request: keys are UTF-8, DEL names at least one key, sizes fit the protocol's i64 lengths
pub open spec fn cmd_ok(c: SCmd) -> bool {
    match c {
        SCmd::Get(k) => utf8_ok(k) && k.len() <= i64::MAX,
        SCmd::Set(k, v) => utf8_ok(k) && k.len() <= i64::MAX && v.len() <= i64::MAX,
        SCmd::Del(ks) => 1 <= ks.len() < i64::MAX && forall |i: int| 0 <= i < ks.len() ==> utf8_ok(#[trigger] ks[i]) && ks[i].len() <= i64::MAX,
    }
}
/// the bytes on the wire for a list of commands, pipelined back to back
pub open spec fn wire(cs: Seq<SCmd>) -> Seq<u8>
    decreases cs.len()
{
    if cs.len() == 0 { Seq::empty() } else { encode(req_frame(cs[0])) + wire(cs.skip(1)) }
}
/// the replies to a list of commands: one per command, in order, the map threaded through
pub open spec fn replies_of(m: Map<Seq<u8>, Seq<u8>>, cs: Seq<SCmd>) -> Seq<u8>
    decreases cs.len()
{
    if cs.len() == 0 { Seq::empty() } else { encode(reply(cs[0], m)) + replies_of(effect(cs[0], m), cs.skip(1)) }
}
pub open spec fn map_of(m: Map<Seq<u8>, Seq<u8>>, cs: Seq<SCmd>) -> Map<Seq<u8>, Seq<u8>>
    decreases cs.len()
{
    if cs.len() == 0 { m } else { map_of(effect(cs[0], m), cs.skip(1)) }
}

pub proof fn lemma_req_decodes(c: SCmd)
    requires cmd_ok(c)
    ensures spec_command(req_frame(c)) == Some(c), wf_frame(req_frame(c), max_fuel())
{
    lemma_max_fuel_pos();
    let a = req_frame(c)->Array_0;
    assert(command::b_del() != command::b_get()) by { assert(command::b_del()[0] != command::b_get()[0]); }
    assert(command::b_del() != command::b_set()) by { assert(command::b_del()[0] != command::b_set()[0]); }
    assert(command::b_get() != command::b_set()) by { assert(command::b_get()[0] != command::b_set()[0]); }
    match c {
        SCmd::Get(k) => {
            assert forall |i: int| 0 <= i < a.len() implies wf_frame(#[trigger] a[i], (max_fuel() - 1) as nat) by {}
        },
        SCmd::Set(k, v) => {
            assert forall |i: int| 0 <= i < a.len() implies wf_frame(#[trigger] a[i], (max_fuel() - 1) as nat) by {}
        },
        SCmd::Del(ks) => {
            assert(a.len() == ks.len() + 1);
            assert forall |i: int| 1 <= i < a.len() implies command::is_key(#[trigger] a[i]) by { assert(a[i] == SFrame::Bulk(ks[i - 1])); }
            assert forall |i: int| 0 <= i < a.len() implies wf_frame(#[trigger] a[i], (max_fuel() - 1) as nat) by {
                if i >= 1 { assert(a[i] == SFrame::Bulk(ks[i - 1])); }
            }
            assert(command::bulks_from(a, 1) =~= ks);
        },
    }
}

/// C06, stream level: the wire image of any list of well-formed commands is a sequence of exactly that many
/// requests, nothing left over, and the replies / final map computed frame by frame (what Handler::run is verified to
/// produce) are the command-level replies_of / map_of.
pub proof fn theorem_pipeline(m: Map<Seq<u8>, Seq<u8>>, cs: Seq<SCmd>)    //@[C06.pipeline]
    requires forall |i: int| 0 <= i < cs.len() ==> cmd_ok(#[trigger] cs[i])
    ensures
        requests(wire(cs), cs.len()),
        rest_after(wire(cs), cs.len()).len() == 0,
        replies(m, wire(cs), cs.len()) == replies_of(m, cs),
        map_after(m, wire(cs), cs.len()) == map_of(m, cs),
    decreases cs.len()
{
    if cs.len() > 0 {
        let c = cs[0];
        let g = req_frame(c);
        let tail = wire(cs.skip(1));
        let d = wire(cs);
        assert(d == encode(g) + tail);
        lemma_req_decodes(c);
        assert(d.subrange(0, encode(g).len() as int) =~= encode(g));
        lemma_encode_canon(g, d, 0, max_fuel());
        assert(first_cmd(d) == Some(c));
        assert(after_first(d) =~= tail);
        assert forall |i: int| 0 <= i < cs.skip(1).len() implies cmd_ok(#[trigger] cs.skip(1)[i]) by { assert(cs.skip(1)[i] == cs[i + 1]); }
        theorem_pipeline(effect(c, m), cs.skip(1));
        let n1 = (cs.len() - 1) as nat;
        assert(cs.skip(1).len() == n1);
        assert(rest_after(d, cs.len()) == rest_after(tail, n1));
        assert(replies(m, d, cs.len()) == encode(reply(c, m)) + replies(effect(c, m), tail, n1));
        assert(map_after(m, d, cs.len()) == map_after(effect(c, m), tail, n1));
    } else {
        assert(wire(cs) =~= Seq::<u8>::empty());
    }
}
