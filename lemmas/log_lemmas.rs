// ------------------------------ spec functions of unit log ------------------------------

impl LogReader {
    /// the mapping is a snapshot of a prefix of the file (files only grow, mappings never change)
    pub closed spec fn wf(&self) -> bool {
        self.mmap@.len() <= self.file.content().len() && self.mmap@ == self.file.content().take(self.mmap@.len() as int)
    }
}
impl LogDir {
    /// every cached reader reads the file it is cached for
    pub closed spec fn wf(&self) -> bool {
        forall |k: u64| #[trigger] self.0@.contains_key(k) ==> self.0@[k].wf() && self.0@[k].file.file() == data_file_no(k)
    }
}
// abstract views (the fields are private)
impl LogWriter {
    pub closed spec fn vfile(&self) -> int { self.0.file() }
    pub closed spec fn vpos(&self) -> u64 { self.0.spec_pos() }
    pub closed spec fn vhanded(&self) -> Seq<u8> { self.0.handed() }
    pub closed spec fn vflushed(&self) -> int { self.0.flushed() }
}
impl LogReader {
    pub closed spec fn vfile(&self) -> int { self.file.file() }
    pub closed spec fn vcontent(&self) -> Seq<u8> { self.file.content() }
}
impl LogIterator {
    pub closed spec fn vfile(&self) -> int { self.0.file() }
    pub closed spec fn vpos(&self) -> u64 { self.0.spec_pos() }
    pub closed spec fn vrest(&self) -> Seq<u8> { self.0.rest() }
}
