// client side (src/net/client.rs): what a reply frame means to the caller
impl Client {
    /// the client's connection (private field)
    pub closed spec fn c(&self) -> Connection { self.conn }
}
/// a frame whose view is a flat array of non-array frames can be written by the connection
pub proof fn lemma_writable_from_view(f: &Frame)
    requires fview(f) matches SFrame::Array(xs) && (forall |i: int| 0 <= i < xs.len() ==> !(#[trigger] xs[i] is Array))
    ensures frame_writable(f)
{
    match f {
        Frame::Array(v) => {
            lemma_fview_array(f);
            let xs = fview(f)->Array_0;
            command::lemma_fviews_ix(v@);
            assert(command::fviews_ix(v@));
            assert forall |i: int| 0 <= i < v@.len() implies !(#[trigger] v@[i] is Array) by {
                assert(fview(&v@[i]) == xs[i]);
                if v@[i] is Array { lemma_fview_array(&v@[i]); }
            }
        }
        _ => {}
    }
}
/// the three request frames are flat arrays of bulk strings
pub proof fn lemma_req_frame_flat(c: SCmd)
    ensures req_frame(c) matches SFrame::Array(xs) && (forall |i: int| 0 <= i < xs.len() ==> (#[trigger] xs[i]) is Bulk)
{
    match c {
        SCmd::Del(ks) => {
            let xs = req_frame(c)->Array_0;
            assert forall |i: int| 0 <= i < xs.len() implies (#[trigger] xs[i]) is Bulk by { if i > 0 { assert(xs[i] == SFrame::Bulk(ks[i - 1])); } }
        }
        _ => {}
    }
}
