// ------------------------------ spec library (unit resp): verified, not trusted ------------------------------
pub open spec fn cdata(c: &Cursor<&[u8]>) -> Seq<u8> { cur_inner(c)@ }
pub open spec fn cpos(c: &Cursor<&[u8]>) -> int { cur_pos(c) as int }
pub open spec fn cwf(c: &Cursor<&[u8]>) -> bool { 0 <= cpos(c) <= cdata(c).len() }

pub broadcast proof fn lemma_rem(c: &Cursor<&[u8]>)
    requires cwf(c)
    ensures #[trigger] BufSpec::rem_bytes(c) == cdata(c).skip(cpos(c))
{
    axiom_as_ref_slice(cur_inner(c));
    if cur_pos(c) >= cdata(c).len() { assert(cdata(c).skip(cpos(c)) =~= Seq::empty()); }
}

// ---- decimal numbers -------------------------------------------------------------------------
pub open spec fn is_digit(b: u8) -> bool { 48 <= b <= 57 }
pub open spec fn all_digits(s: Seq<u8>) -> bool { forall |i: int| 0 <= i < s.len() ==> is_digit(#[trigger] s[i]) }
pub open spec fn dec_value(s: Seq<u8>) -> int
    decreases s.len()
{
    if s.len() == 0 { 0 } else { dec_value(s.drop_last()) * 10 + (s.last() - 48) }
}
pub open spec fn pow10(k: nat) -> int decreases k { if k == 0 { 1 } else { 10 * pow10((k - 1) as nat) } }

pub proof fn lemma_dec_push(s: Seq<u8>, b: u8)
    ensures dec_value(s.push(b)) == dec_value(s) * 10 + (b - 48)
{
    assert(s.push(b).drop_last() =~= s);
}
pub proof fn lemma_dec_bound(s: Seq<u8>)
    requires all_digits(s)
    ensures 0 <= dec_value(s) < pow10(s.len())
    decreases s.len()
{
    if s.len() > 0 {
        lemma_dec_bound(s.drop_last());
        assert(is_digit(s[s.len() - 1]));
    }
}
pub proof fn lemma_pow10_mono(a: nat, b: nat)
    requires a <= b ensures pow10(a) <= pow10(b), pow10(a) >= 1
    decreases b
{
    if a < b { lemma_pow10_mono(a, (b - 1) as nat); } else if a > 0 { lemma_pow10_mono((a-1) as nat, (a-1) as nat); }
}
pub proof fn lemma_pow10_18() ensures pow10(18) == 1_000_000_000_000_000_000int
{
    assert(pow10(18) == 1_000_000_000_000_000_000int) by (compute);
}

/// Signed decimal text `[+-]?digits+` and its value.
pub open spec fn int_text_ok(t: Seq<u8>) -> bool {
    let body = if t.len() > 0 && (t[0] == 45 || t[0] == 43) { t.skip(1) } else { t };
    body.len() > 0 && all_digits(body)
}
pub open spec fn int_text_value(t: Seq<u8>) -> int {
    if t.len() > 0 && t[0] == 45 { -dec_value(t.skip(1)) } else if t.len() > 0 && t[0] == 43 { dec_value(t.skip(1)) } else { dec_value(t) }
}

/// Canonical decimal text of an integer: optional '-', no leading zeros.
pub open spec fn dec_digits(n: nat) -> Seq<u8>
    decreases n
{
    if n < 10 { seq![(48 + n) as u8] } else { dec_digits(n / 10).push((48 + n % 10) as u8) }
}
pub open spec fn dec_text(v: int) -> Seq<u8> {
    if v < 0 { seq![45u8] + dec_digits((-v) as nat) } else { dec_digits(v as nat) }
}
pub proof fn lemma_dec_digits(n: nat)
    ensures all_digits(dec_digits(n)), dec_digits(n).len() >= 1, dec_value(dec_digits(n)) == n
    decreases n
{
    if n < 10 {
        let s = seq![(48 + n) as u8];
        assert(s.drop_last() =~= Seq::<u8>::empty());
        assert(dec_value(s.drop_last()) == 0);
        assert(s.last() == (48 + n) as u8);
    } else {
        lemma_dec_digits(n / 10);
        let p = dec_digits(n / 10);
        let b = (48 + n % 10) as u8;
        lemma_dec_push(p, b);
        assert forall |i: int| 0 <= i < p.push(b).len() implies is_digit(#[trigger] p.push(b)[i]) by {
            if i < p.len() { assert(p.push(b)[i] == p[i]); }
        }
    }
}
pub proof fn lemma_dec_text(v: int)
    ensures int_text_ok(dec_text(v)), int_text_value(dec_text(v)) == v,
            dec_text(v).len() >= 1,
            forall |i: int| 0 <= i < dec_text(v).len() ==> (#[trigger] dec_text(v)[i] == 45 || is_digit(dec_text(v)[i])),
            dec_text(v)[0] != 43,
            v >= 0 ==> is_digit(dec_text(v)[0]),
            v < 0 ==> dec_text(v)[0] == 45 && all_digits(dec_text(v).skip(1)) && dec_text(v).len() >= 2,
            v >= 0 ==> all_digits(dec_text(v)),
{
    if v < 0 {
        let n = (-v) as nat;
        lemma_dec_digits(n);
        let t = seq![45u8] + dec_digits(n);
        assert(t.skip(1) =~= dec_digits(n));
        assert(t[0] == 45);
    } else {
        lemma_dec_digits(v as nat);
        let t = dec_digits(v as nat);
        assert(is_digit(t[0]));
    }
}
pub open spec fn is_canon_int_text(t: Seq<u8>) -> bool {
    t == dec_text(int_text_value(t)) && i64::MIN <= int_text_value(t) <= i64::MAX
}

// ---- lines ------------------------------------------------------------------------------------
/// Index of the first CR in d[s .. |d|-1)  (a CR in the very last byte does not count: the parser
/// wants to see one more byte after it).
pub open spec fn line_end(d: Seq<u8>, s: int) -> Option<int>
    decreases d.len() - s
{
    if s < 0 || s >= d.len() - 1 { None } else if d[s] == 13 { Some(s) } else { line_end(d, s + 1) }
}
pub open spec fn is_line_end(d: Seq<u8>, s: int, i: int) -> bool {
    0 <= s <= i < d.len() - 1 && d[i] == 13 && forall |j: int| s <= j < i ==> #[trigger] d[j] != 13
}
pub proof fn lemma_line_end_some(d: Seq<u8>, s: int)
    ensures line_end(d, s) matches Some(i) ==> is_line_end(d, s, i)
    decreases d.len() - s
{
    if s < 0 || s >= d.len() - 1 { } else if d[s] == 13 { } else { lemma_line_end_some(d, s + 1); }
}
pub proof fn lemma_line_end_is(d: Seq<u8>, s: int, i: int)
    requires is_line_end(d, s, i)
    ensures line_end(d, s) == Some(i)
    decreases i - s
{
    if s < i { assert(d[s] != 13); lemma_line_end_is(d, s + 1, i); }
}
pub proof fn lemma_line_end_none(d: Seq<u8>, s: int)
    requires 0 <= s, forall |j: int| s <= j < d.len() - 1 ==> #[trigger] d[j] != 13
    ensures line_end(d, s) is None
    decreases d.len() - s
{
    if s < d.len() - 1 { lemma_line_end_none(d, s + 1); }
}

/// An integer line starting at s: (value, length including the two terminator bytes).
pub open spec fn int_line(d: Seq<u8>, s: int) -> Option<(int, int)> {
    match line_end(d, s) {
        Some(e) => if int_text_ok(d.subrange(s, e)) { Some((int_text_value(d.subrange(s, e)), e - s + 2)) } else { None },
        None => None,
    }
}

// ---- frames: what `check` / `parse` read (lenient, deterministic) ------------------------------
pub enum SFrame { Simple(Seq<u8>), Error(Seq<u8>), Integer(int), Bulk(Seq<u8>), Null, Array(Seq<SFrame>) }

pub open spec fn frame_len(d: Seq<u8>, s: int, fuel: nat) -> Option<int>
    decreases fuel, 0nat, 0nat
{
    if s < 0 || s >= d.len() { None }
    else if d[s] == 43 || d[s] == 45 || d[s] == 58 {
        match line_end(d, s + 1) { Some(e) => Some(e - s + 2), None => None }
    } else if d[s] == 36 {
        if s + 1 < d.len() && d[s + 1] == 45 {
            if s + 5 <= d.len() { Some(5) } else { None }
        } else {
            match int_line(d, s + 1) {
                Some((v, m)) => if v >= 0 && s + 1 + m + v + 2 <= d.len() { Some(1 + m + v + 2) } else { None },
                None => None,
            }
        }
    } else if d[s] == 42 {
        if fuel == 0 { None } else {
            match int_line(d, s + 1) {
                Some((v, m)) => if v < 0 { Some(1 + m) } else {
                    match items_len(d, s + 1 + m, v as nat, (fuel - 1) as nat) { Some(t) => Some(1 + m + t), None => None }
                },
                None => None,
            }
        }
    } else { None }
}
pub open spec fn items_len(d: Seq<u8>, p: int, k: nat, fuel: nat) -> Option<int>
    decreases fuel, 1nat, k
{
    if k == 0 { Some(0) } else {
        match frame_len(d, p, fuel) {
            Some(a) => match items_len(d, p + a, (k - 1) as nat, fuel) { Some(b) => Some(a + b), None => None },
            None => None,
        }
    }
}
pub open spec fn frame_val(d: Seq<u8>, s: int, fuel: nat) -> SFrame
    decreases fuel, 0nat, 0nat
{
    if s < 0 || s >= d.len() { SFrame::Null }
    else if d[s] == 43 { match line_end(d, s + 1) { Some(e) => SFrame::Simple(d.subrange(s + 1, e)), None => SFrame::Null } }
    else if d[s] == 45 { match line_end(d, s + 1) { Some(e) => SFrame::Error(d.subrange(s + 1, e)), None => SFrame::Null } }
    else if d[s] == 58 { match int_line(d, s + 1) { Some((v, m)) => SFrame::Integer(v), None => SFrame::Null } }
    else if d[s] == 36 {
        if s + 1 < d.len() && d[s + 1] == 45 { SFrame::Null } else {
            match int_line(d, s + 1) {
                Some((v, m)) => if v >= 0 { SFrame::Bulk(d.subrange(s + 1 + m, s + 1 + m + v)) } else { SFrame::Null },
                None => SFrame::Null,
            }
        }
    } else if d[s] == 42 {
        if fuel == 0 { SFrame::Null } else {
            match int_line(d, s + 1) {
                Some((v, m)) => if v >= 0 { SFrame::Array(items_val(d, s + 1 + m, v as nat, (fuel - 1) as nat)) } else { SFrame::Null },
                None => SFrame::Null,
            }
        }
    } else { SFrame::Null }
}
pub open spec fn items_val(d: Seq<u8>, p: int, k: nat, fuel: nat) -> Seq<SFrame>
    decreases fuel, 1nat, k
{
    if k == 0 { Seq::empty() } else {
        match frame_len(d, p, fuel) {
            Some(a) => seq![frame_val(d, p, fuel)] + items_val(d, p + a, (k - 1) as nat, fuel),
            None => Seq::empty(),
        }
    }
}
pub open spec fn opt_add(a: int, b: Option<int>) -> Option<int> {
    match b { Some(x) => Some(a + x), None => None }
}

pub open spec fn fview(f: &Frame) -> SFrame
    decreases f
{
    match f {
        Frame::SimpleString(s) => SFrame::Simple(string_bytes(s)),
        Frame::Error(s) => SFrame::Error(string_bytes(s)),
        Frame::Integer(i) => SFrame::Integer(*i as int),
        Frame::BulkString(b) => SFrame::Bulk(bv(*b)),
        Frame::Array(v) => SFrame::Array(Seq::new(v@.len(), |i: int| if 0 <= i < v@.len() { fview(&v@[i]) } else { SFrame::Null })),
        Frame::Null => SFrame::Null,
    }
}
pub open spec fn fviews(v: Seq<Frame>) -> Seq<SFrame>
{
    Seq::new(v.len(), |i: int| if 0 <= i < v.len() { fview(&v[i]) } else { SFrame::Null })
}
pub proof fn lemma_fviews_push(v: Seq<Frame>, f: Frame)
    ensures fviews(v.push(f)) =~= fviews(v).push(fview(&f))
{
}

/// C07 "whenever the completeness check accepts n bytes, parsing does not succeed with a different
/// length": both are tied to the same deterministic function of the buffer.
pub proof fn lemma_check_parse_agree(d: Seq<u8>, s: int, fuel: nat, n_check: int, n_parse: int)   //@[C07.agree]
    requires frame_len(d, s, fuel) == Some(n_check), frame_len(d, s, fuel) == Some(n_parse)
    ensures n_check == n_parse
{
}

/// d from s is a strict prefix of "<canonical integer>\r\n" (slightly wider: any optional '-' followed
/// by digits; the last byte of the buffer is never looked at by the parser).
pub open spec fn int_pfx(d: Seq<u8>, s: int) -> bool {
    s >= d.len() || {
        let b = if d[s] == 45 { s + 1 } else { s };
        d[s] != 43 && (b >= d.len() - 1 || all_digits(d.subrange(b, d.len() - 1)))
    }
}

// ---- canonical encodings (strict): what the writer produces ------------------------------------
pub open spec fn crlf_at(d: Seq<u8>, i: int) -> bool { 0 <= i && i + 1 < d.len() && d[i] == 13 && d[i + 1] == 10 }
pub open spec fn no_lf(l: Seq<u8>) -> bool { forall |i: int| 0 <= i < l.len() ==> #[trigger] l[i] != 10 }
pub open spec fn no_crlf(l: Seq<u8>) -> bool { forall |i: int| 0 <= i < l.len() ==> #[trigger] l[i] != 13 && l[i] != 10 }
pub open spec fn null_tail() -> Seq<u8> { seq![45u8, 49u8, 13u8, 10u8] }

/// a canonical line starts at s: text without CR/LF, then CR LF
pub open spec fn canon_line(d: Seq<u8>, s: int) -> bool {
    line_end(d, s) matches Some(e) && no_lf(d.subrange(s, e)) && d[e + 1] == 10
}
pub open spec fn canon_int(d: Seq<u8>, s: int) -> bool {
    line_end(d, s) matches Some(e) && is_canon_int_text(d.subrange(s, e)) && d[e + 1] == 10
}
pub open spec fn canon(d: Seq<u8>, s: int, fuel: nat) -> bool
    decreases fuel, 0nat, 0nat
{
    0 <= s < d.len() && (
    if d[s] == 43 || d[s] == 45 {
        canon_line(d, s + 1) && utf8_ok(d.subrange(s + 1, line_end(d, s + 1)->0))
    } else if d[s] == 58 {
        canon_int(d, s + 1)
    } else if d[s] == 36 {
        if s + 1 < d.len() && d[s + 1] == 45 {
            s + 5 <= d.len() && d.subrange(s + 1, s + 5) == null_tail()
        } else {
            canon_int(d, s + 1) && (int_line(d, s + 1) matches Some((v, m)) && v >= 0 && s + 1 + m + v + 2 <= d.len() && crlf_at(d, s + 1 + m + v))
        }
    } else if d[s] == 42 {
        fuel > 0 && canon_int(d, s + 1) && (int_line(d, s + 1) matches Some((v, m)) && v >= 0 && canon_items(d, s + 1 + m, v as nat, (fuel - 1) as nat))
    } else { false })
}
pub open spec fn canon_items(d: Seq<u8>, p: int, k: nat, fuel: nat) -> bool
    decreases fuel, 1nat, k
{
    k == 0 || (canon(d, p, fuel) && (frame_len(d, p, fuel) matches Some(a) && canon_items(d, p + a, (k - 1) as nat, fuel)))
}

// ---- strict prefixes of canonical encodings -----------------------------------------------------
pub open spec fn line_pfx(d: Seq<u8>, s: int) -> bool {
    forall |j: int| s <= j < d.len() - 1 ==> #[trigger] d[j] != 13 && d[j] != 10
}
pub open spec fn pfx(d: Seq<u8>, s: int, fuel: nat) -> bool
    decreases fuel, 0nat, 0nat
{
    0 <= s && (s >= d.len() || (
    if d[s] == 43 || d[s] == 45 { line_pfx(d, s + 1) }
    else if d[s] == 58 { int_pfx(d, s + 1) }
    else if d[s] == 36 {
        if s + 1 < d.len() && d[s + 1] == 45 {
            d.len() - s - 1 < 4 && d.subrange(s + 1, d.len() as int) == null_tail().take(d.len() - s - 1)
        } else {
            int_pfx(d, s + 1) || (canon_int(d, s + 1) && (int_line(d, s + 1) matches Some((v, m)) && v >= 0 && s + 1 + m + v + 2 > d.len()))
        }
    } else if d[s] == 42 {
        fuel > 0 && (int_pfx(d, s + 1) || (canon_int(d, s + 1) && (int_line(d, s + 1) matches Some((v, m)) && v >= 0 && items_pfx(d, s + 1 + m, v as nat, (fuel - 1) as nat))))
    } else { false }))
}
pub open spec fn items_pfx(d: Seq<u8>, p: int, k: nat, fuel: nat) -> bool
    decreases fuel, 1nat, k
{
    k > 0 && (pfx(d, p, fuel) || (canon(d, p, fuel) && (frame_len(d, p, fuel) matches Some(a) && items_pfx(d, p + a, (k - 1) as nat, fuel))))
}

/// the nesting budget of the public entry points (the repo's private constant, visible to contracts)
pub closed spec fn max_fuel() -> nat { MAX_DEPTH as nat }
proof fn lemma_max_fuel() ensures max_fuel() == MAX_DEPTH as nat { }

/// an accepted frame is non-empty and lies inside the buffer
pub proof fn lemma_frame_len_bounds(d: Seq<u8>, s: int, fuel: nat)
    ensures frame_len(d, s, fuel) matches Some(n) ==> n >= 1 && s + n <= d.len() && s >= 0
    decreases fuel, 0nat, 0nat
{
    if s < 0 || s >= d.len() { }
    else if d[s] == 43 || d[s] == 45 || d[s] == 58 { lemma_line_end_some(d, s + 1); }
    else if d[s] == 36 {
        if s + 1 < d.len() && d[s + 1] == 45 { } else { lemma_line_end_some(d, s + 1); }
    } else if d[s] == 42 {
        if fuel > 0 {
            lemma_line_end_some(d, s + 1);
            match int_line(d, s + 1) {
                Some((v, m)) => { if v >= 0 { lemma_items_len_bounds(d, s + 1 + m, v as nat, (fuel - 1) as nat); } },
                None => {},
            }
        }
    }
}
pub proof fn lemma_items_len_bounds(d: Seq<u8>, p: int, k: nat, fuel: nat)
    requires 0 <= p <= d.len()
    ensures items_len(d, p, k, fuel) matches Some(t) ==> t >= 0 && p + t <= d.len()
    decreases fuel, 1nat, k
{
    if k > 0 {
        lemma_frame_len_bounds(d, p, fuel);
        match frame_len(d, p, fuel) {
            Some(a) => { lemma_items_len_bounds(d, p + a, (k - 1) as nat, fuel); },
            None => {},
        }
    }
}
