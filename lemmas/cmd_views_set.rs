impl Set {
    pub closed spec fn vkey(&self) -> Seq<u8> { self.key.bytes() }
    pub closed spec fn vvalue(&self) -> Seq<u8> { bv(self.value) }
}
