// ------------------------------ C06: what a request means ------------------------------
// A request is an array of bulk strings; its first element names the command by its exact bytes (the code compares
// with "DEL" / "GET" / "SET", case-sensitively).  Keys must be UTF-8, values are arbitrary bytes.
pub enum SCmd { Get(Seq<u8>), Set(Seq<u8>, Seq<u8>), Del(Seq<Seq<u8>>) }

pub open spec fn b_get() -> Seq<u8> { seq![71u8, 69u8, 84u8] }
pub open spec fn b_set() -> Seq<u8> { seq![83u8, 69u8, 84u8] }
pub open spec fn b_del() -> Seq<u8> { seq![68u8, 69u8, 76u8] }
pub open spec fn is_key(f: SFrame) -> bool { f is Bulk && utf8_ok(f->Bulk_0) }
pub open spec fn all_keys(a: Seq<SFrame>, from: int) -> bool { forall |i: int| from <= i < a.len() ==> is_key(#[trigger] a[i]) }
pub open spec fn bulks_from(a: Seq<SFrame>, from: int) -> Seq<Seq<u8>> {
    Seq::new((a.len() - from) as nat, |i: int| a[i + from]->Bulk_0)
}

pub open spec fn spec_command(f: SFrame) -> Option<SCmd> {
    if !(f is Array) { None } else {
        let a = f->Array_0;
        if a.len() == 0 || !(a[0] is Bulk) { None }
        else if a[0]->Bulk_0 == b_del() {
            if a.len() >= 2 && all_keys(a, 1) { Some(SCmd::Del(bulks_from(a, 1))) } else { None }
        } else if a[0]->Bulk_0 == b_get() {
            if a.len() == 2 && is_key(a[1]) { Some(SCmd::Get(a[1]->Bulk_0)) } else { None }
        } else if a[0]->Bulk_0 == b_set() {
            if a.len() == 3 && is_key(a[1]) && a[2] is Bulk { Some(SCmd::Set(a[1]->Bulk_0, a[2]->Bulk_0)) } else { None }
        } else { None }
    }
}

pub open spec fn cview(c: &Command) -> SCmd {
    match c {
        Command::Del(d) => SCmd::Del(d.vkeys()),
        Command::Get(g) => SCmd::Get(g.vkey()),
        Command::Set(s) => SCmd::Set(s.vkey(), s.vvalue()),
    }
}

// DEL key [key ...]: the keys are deleted in turn, each one counted if it was present at its turn
pub open spec fn del_fold(m: Map<Seq<u8>, Seq<u8>>, keys: Seq<Seq<u8>>) -> (int, Map<Seq<u8>, Seq<u8>>)
    decreases keys.len()
{
    if keys.len() == 0 { (0, m) } else {
        let (c, m2) = del_fold(m, keys.drop_last());
        (c + if m2.contains_key(keys.last()) { 1int } else { 0int }, m2.remove(keys.last()))
    }
}
pub open spec fn ok_text() -> Seq<u8> { seq![79u8, 75u8] }
/// the reply to a request, as a function of the request and the map before it
pub open spec fn reply(c: SCmd, m: Map<Seq<u8>, Seq<u8>>) -> SFrame {
    match c {
        SCmd::Get(k) => if m.contains_key(k) { SFrame::Bulk(m[k]) } else { SFrame::Null },
        SCmd::Set(k, v) => SFrame::Simple(ok_text()),
        SCmd::Del(ks) => SFrame::Integer(del_fold(m, ks).0),
    }
}
/// the map after a request
pub open spec fn effect(c: SCmd, m: Map<Seq<u8>, Seq<u8>>) -> Map<Seq<u8>, Seq<u8>> {
    match c {
        SCmd::Get(k) => m,
        SCmd::Set(k, v) => m.insert(k, v),
        SCmd::Del(ks) => del_fold(m, ks).1,
    }
}

impl Utf8Bytes {
    pub closed spec fn bytes(&self) -> Seq<u8> { bv(self.0) }
}
/// `keys@` with the element type fixed (the code declares `let mut keys = Vec::new()` without a type)
pub open spec fn kseq(v: &Vec<Utf8Bytes>) -> Seq<Utf8Bytes> { v@ }
pub open spec fn ubytes(v: Seq<Utf8Bytes>) -> Seq<Seq<u8>> { Seq::new(v.len(), |i: int| v[i].bytes()) }
impl Parser {
    #[verifier::prophetic]
    pub closed spec fn rest(&self) -> Seq<Frame> { self.frames.remaining() }
}
#[verifier::prophetic]
pub open spec fn rviews(p: &Parser) -> Seq<SFrame> { fviews(p.rest()) }

/// fviews(s)[i] is fview(&s[i]), stated so that it fires from either side
pub open spec fn fviews_ix(s: Seq<Frame>) -> bool {
    fviews(s).len() == s.len()
    && (forall |i: int| #![trigger s[i]] 0 <= i < s.len() ==> fview(&s[i]) == fviews(s)[i])
    && (forall |i: int| #![trigger fviews(s)[i]] 0 <= i < s.len() ==> fviews(s)[i] == fview(&s[i]))
}
pub proof fn lemma_fviews_ix(s: Seq<Frame>) ensures fviews_ix(s) {}

pub proof fn lemma_fview_array(f: &Frame)
    requires f is Array
    ensures fview(f) is Array, fview(f)->Array_0 == fviews(f->Array_0@)
{
    assert(fview(f)->Array_0 =~= fviews(f->Array_0@));
}

// vstd's TryFrom::try_from carries `obeys_try_from_spec() ==> r == try_from_spec(v)`; these impls promise nothing through
// that channel (the contracts in contracts/command.spec are the specification)
impl vstd::std_specs::convert::TryFromSpecImpl<Bytes> for Utf8Bytes {
    open spec fn obeys_try_from_spec() -> bool { false }
    open spec fn try_from_spec(v: Bytes) -> Result<Self, Error> { arbitrary() }
}
impl vstd::std_specs::convert::TryFromSpecImpl<Frame> for Command {
    open spec fn obeys_try_from_spec() -> bool { false }
    open spec fn try_from_spec(v: Frame) -> Result<Self, Error> { arbitrary() }
}
impl vstd::std_specs::convert::TryFromSpecImpl<Parser> for Del {
    open spec fn obeys_try_from_spec() -> bool { false }
    open spec fn try_from_spec(v: Parser) -> Result<Self, Error> { arbitrary() }
}
impl vstd::std_specs::convert::TryFromSpecImpl<Parser> for Get {
    open spec fn obeys_try_from_spec() -> bool { false }
    open spec fn try_from_spec(v: Parser) -> Result<Self, Error> { arbitrary() }
}
impl vstd::std_specs::convert::TryFromSpecImpl<Parser> for Set {
    open spec fn obeys_try_from_spec() -> bool { false }
    open spec fn try_from_spec(v: Parser) -> Result<Self, Error> { arbitrary() }
}

/// the arguments of a request: the views of everything after the command name
pub proof fn lemma_args(rest: Seq<Frame>)
    requires rest.len() >= 1
    ensures ({ let a = fviews(rest); let t = fviews(rest.skip(1));
        &&& t.len() == a.len() - 1
        &&& (forall |i: int| #![trigger t[i]] 0 <= i < t.len() ==> t[i] == a[i + 1])
        &&& all_keys(t, 0) == all_keys(a, 1)
        &&& bulks_from(t, 0) == bulks_from(a, 1) })
{
    let a = fviews(rest);
    let t = fviews(rest.skip(1));
    assert forall |i: int| 0 <= i < t.len() implies #[trigger] t[i] == a[i + 1] by {}
    if all_keys(t, 0) {
        assert forall |i: int| 1 <= i < a.len() implies is_key(#[trigger] a[i]) by { assert(is_key(t[i - 1])); }
    }
    if all_keys(a, 1) {
        assert forall |i: int| 0 <= i < t.len() implies is_key(#[trigger] t[i]) by { assert(is_key(a[i + 1])); }
    }
    assert(bulks_from(t, 0) =~= bulks_from(a, 1));
}

/// Forwarding wrapper (verified, not trusted): calling `Command::try_from` from another module makes this Verus build
/// panic (vir::assoc_types_to_air); rule R-tryfrom-call routes the call in server.rs through here.
pub fn verif_command_try_from(frame: Frame) -> (r: Result<Command, Error>)
    ensures r is Ok <==> spec_command(fview(&frame)) is Some,
            r matches Ok(c) ==> Some(cview(&c)) == spec_command(fview(&frame)),
{ Command::try_from(frame) }

pub proof fn lemma_names()
    ensures str_bytes("DEL") == b_del(), str_bytes("GET") == b_get(), str_bytes("SET") == b_set()
{
    reveal_strlit("DEL"); reveal_strlit("GET"); reveal_strlit("SET");
    axiom_ascii_bytes("DEL"); axiom_ascii_bytes("GET"); axiom_ascii_bytes("SET");
    assert(str_bytes("DEL") =~= b_del());
    assert(str_bytes("GET") =~= b_get());
    assert(str_bytes("SET") =~= b_set());
}

// ---- the client side: what `From<Get/Set/Del> for Frame` builds is the request frame of the theorem
/// the request a client sends for a command
pub open spec fn req_frame(c: SCmd) -> SFrame {
    match c {
        SCmd::Get(k) => SFrame::Array(seq![SFrame::Bulk(b_get()), SFrame::Bulk(k)]),
        SCmd::Set(k, v) => SFrame::Array(seq![SFrame::Bulk(b_set()), SFrame::Bulk(k), SFrame::Bulk(v)]),
        SCmd::Del(ks) => SFrame::Array(seq![SFrame::Bulk(b_del())] + Seq::new(ks.len(), |i: int| SFrame::Bulk(ks[i]))),
    }
}
impl vstd::std_specs::convert::FromSpecImpl<String> for Utf8Bytes {
    open spec fn obeys_from_spec() -> bool { false }
    open spec fn from_spec(v: String) -> Utf8Bytes { arbitrary() }
}
impl vstd::std_specs::convert::FromSpecImpl<Get> for Frame {
    open spec fn obeys_from_spec() -> bool { false }
    open spec fn from_spec(v: Get) -> Frame { arbitrary() }
}
impl vstd::std_specs::convert::FromSpecImpl<Set> for Frame {
    open spec fn obeys_from_spec() -> bool { false }
    open spec fn from_spec(v: Set) -> Frame { arbitrary() }
}
impl vstd::std_specs::convert::FromSpecImpl<Del> for Frame {
    open spec fn obeys_from_spec() -> bool { false }
    open spec fn from_spec(v: Del) -> Frame { arbitrary() }
}
/// the byte strings "GET" / "SET" / "DEL".into() produce
pub proof fn lemma_names_bytes()
    ensures str_bytes("DEL") == b_del(), str_bytes("GET") == b_get(), str_bytes("SET") == b_set()
{ lemma_names(); }
