// ghost state of the two wrappers: the counter IS the logical position of the stream they wrap
impl<R: Read> io::Stream for BufReaderWithPos<R> {
    closed spec fn lpos(&self) -> int { self.pos as int }
    closed spec fn pre(&self) -> bool { self.reader.pre() && self.pos as int == self.reader.lpos() }
}
impl<W: Write> io::Stream for BufWriterWithPos<W> {
    closed spec fn lpos(&self) -> int { self.pos as int }
    closed spec fn pre(&self) -> bool { self.writer.pre() && self.pos as int == self.writer.lpos() }
}
