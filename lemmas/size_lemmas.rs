// ------------------------------ C13: sizes ------------------------------
/// size of a data file = sum of the lengths of its records (a torn tail is not counted)
spec fn fsize(recs: Seq<Rec>) -> nat
    decreases recs.len()
{
    if recs.len() == 0 { 0 } else { fsize(recs.drop_last()) + recs.last().len as nat }
}
proof fn lemma_fsize_push(recs: Seq<Rec>, r: Rec)
    ensures fsize(recs.push(r)) == fsize(recs) + r.len as nat
{
    assert(recs.push(r).drop_last() =~= recs);
}
/// dead bytes never exceed the file; a file no key points into is dead entirely
proof fn lemma_dead_le_size(kd: Map<Bytes, KeyDirEntry>, f: u64, recs: Seq<Rec>)
    ensures dead_b(kd, f, recs) <= fsize(recs),
            (forall |k: Bytes| #[trigger] kd.contains_key(k) ==> kd[k].fileid != f) ==> dead_b(kd, f, recs) == fsize(recs),
    decreases recs.len()
{
    if recs.len() > 0 { lemma_dead_le_size(kd, f, recs.drop_last()); }
}
/// dead bytes (ground truth under key directory kd) / sizes summed over a list of files
spec fn sum_dead(kd: Map<Bytes, KeyDirEntry>, w: &World, ids: Seq<u64>) -> nat
    decreases ids.len()
{
    if ids.len() == 0 { 0 } else { sum_dead(kd, w, ids.drop_last()) + dead_b(kd, ids.last(), w.data[ids.last()].recs) }
}
spec fn sum_size(w: &World, ids: Seq<u64>) -> nat
    decreases ids.len()
{
    if ids.len() == 0 { 0 } else { sum_size(w, ids.drop_last()) + fsize(w.data[ids.last()].recs) }
}
/// total size of the data files with ids in [lo, hi]
spec fn range_size(w: &World, lo: int, hi: int) -> nat
    decreases hi - lo + 1
{
    if hi < lo || hi < 0 { 0 } else { range_size(w, lo, hi - 1) + fsize(w.data[hi as u64].recs) }
}
proof fn lemma_range_same(w: &World, w2: &World, lo: int, hi: int)
    requires hi <= u64::MAX, forall |g: u64| lo <= g <= hi ==> (#[trigger] w2.data[g]).recs == w.data[g].recs
    ensures range_size(w2, lo, hi) == range_size(w, lo, hi)
    decreases hi - lo + 1
{
    if !(hi < lo || hi < 0) {
        lemma_range_same(w, w2, lo, hi - 1);
        assert(w2.data[hi as u64].recs == w.data[hi as u64].recs);
    }
}
proof fn lemma_sum_dead_le(kd: Map<Bytes, KeyDirEntry>, w: &World, ids: Seq<u64>)
    ensures sum_dead(kd, w, ids) <= sum_size(w, ids),
            (forall |k: Bytes, i: int| #[trigger] kd.contains_key(k) && 0 <= i < ids.len() ==> kd[k].fileid != #[trigger] ids[i]) ==> sum_dead(kd, w, ids) == sum_size(w, ids),
    decreases ids.len()
{
    if ids.len() > 0 {
        lemma_sum_dead_le(kd, w, ids.drop_last());
        lemma_dead_le_size(kd, ids.last(), w.data[ids.last()].recs);
        if forall |k: Bytes, i: int| #[trigger] kd.contains_key(k) && 0 <= i < ids.len() ==> kd[k].fileid != #[trigger] ids[i] {
            assert forall |k: Bytes, i: int| #[trigger] kd.contains_key(k) && 0 <= i < ids.drop_last().len() implies kd[k].fileid != #[trigger] ids.drop_last()[i] by {
                assert(ids.drop_last()[i] == ids[i]);
            }
            assert forall |k: Bytes| #[trigger] kd.contains_key(k) implies kd[k].fileid != ids.last() by {
                assert(ids[ids.len() - 1] == ids.last());
            }
        }
    }
}
/// re-pointing ONE key away from the listed files turns exactly its record into dead bytes
proof fn lemma_sum_dead_change(kd: Map<Bytes, KeyDirEntry>, kd2: Map<Bytes, KeyDirEntry>, w: &World, ids: Seq<u64>, k: Bytes)
    requires
        world_wf(w), ids.no_duplicates(), forall |i: int| 0 <= i < ids.len() ==> w.data.contains_key(#[trigger] ids[i]),
        kd.contains_key(k), loc_ok(w, k, kd[k]),
        forall |j: Bytes| j != k ==> #[trigger] kd2.contains_key(j) == kd.contains_key(j),
        forall |j: Bytes| j != k && kd.contains_key(j) ==> #[trigger] kd2[j] == kd[j],
        kd2.contains_key(k) ==> forall |i: int| 0 <= i < ids.len() ==> #[trigger] ids[i] != kd2[k].fileid,
    ensures
        sum_dead(kd2, w, ids) == sum_dead(kd, w, ids) + (if ids.contains(kd[k].fileid) { kd[k].len as nat } else { 0nat }),
    decreases ids.len()
{
    if ids.len() > 0 {
        let g = ids.last();
        let rest = ids.drop_last();
        assert(ids[ids.len() - 1] == g);
        assert forall |i: int| 0 <= i < rest.len() implies w.data.contains_key(#[trigger] rest[i]) by { assert(rest[i] == ids[i]); }
        assert(rest.no_duplicates());
        if kd2.contains_key(k) {
            assert forall |i: int| 0 <= i < rest.len() implies #[trigger] rest[i] != kd2[k].fileid by { assert(rest[i] == ids[i]); }
        }
        lemma_sum_dead_change(kd, kd2, w, rest, k);
        assert(data_wf(w.data[g]));
        let recs = w.data[g].recs;
        if kd[k].fileid == g {
            assert(rec_at(recs, kd[k].pos) matches Some(r0) && r0.key == k);
        }
        lemma_kd_change(kd, kd2, g, recs, w.data[g].size as int, k);
        // g occurs once: it is not in rest
        assert(!rest.contains(g)) by {
            if rest.contains(g) {
                let i = choose |i: int| 0 <= i < rest.len() && rest[i] == g;
                assert(ids[i] == g && ids[ids.len() - 1] == g);
            }
        }
        if kd[k].fileid == g {
            assert(ids.contains(g));
            assert(!rest.contains(kd[k].fileid));
            assert((rec_at(recs, kd[k].pos)->0).len == kd[k].len);
        } else {
            assert(ids.contains(kd[k].fileid) == rest.contains(kd[k].fileid)) by {
                if ids.contains(kd[k].fileid) {
                    let i = choose |i: int| 0 <= i < ids.len() && ids[i] == kd[k].fileid;
                    assert(i < ids.len() - 1);
                    assert(rest[i] == ids[i]);
                }
                if rest.contains(kd[k].fileid) {
                    let i = choose |i: int| 0 <= i < rest.len() && rest[i] == kd[k].fileid;
                    assert(ids[i] == rest[i]);
                }
            }
        }
    }
}
/// sums over a list of files depend only on those files
proof fn lemma_sum_same(kd: Map<Bytes, KeyDirEntry>, w: &World, w2: &World, ids: Seq<u64>)
    requires forall |i: int| 0 <= i < ids.len() ==> (#[trigger] w2.data[ids[i]]).recs == w.data[ids[i]].recs
    ensures sum_dead(kd, w2, ids) == sum_dead(kd, w, ids), sum_size(w2, ids) == sum_size(w, ids)
    decreases ids.len()
{
    if ids.len() > 0 {
        assert forall |i: int| 0 <= i < ids.drop_last().len() implies (#[trigger] w2.data[ids.drop_last()[i]]).recs == w.data[ids.drop_last()[i]].recs by { assert(ids.drop_last()[i] == ids[i]); }
        lemma_sum_same(kd, w, w2, ids.drop_last());
        assert(ids[ids.len() - 1] == ids.last());
    }
}

/// C13: what one merge pass does to the sizes.  `ids` lists the removed files (each once); the created files are
/// exactly lo ..= hi + 1, the last of them (the new active file) empty; and
///     size of the outputs  ==  size of the removed files  -  their dead bytes
/// where dead = not pointed to by the key directory when the merge started.  With C13.merge.old_files_untouched_or_removed
/// (every other file is unchanged) the store shrinks by exactly the dead bytes of the selected files: it never grows,
/// it keeps one record per live key of those files and nothing else, and a second pass over compacted files (no dead
/// bytes) leaves the size unchanged.
spec fn merge_sizes(w0: &World, w: &World, kd0: Map<Bytes, KeyDirEntry>, ids: Seq<u64>, lo: u64, hi: u64) -> bool {
    &&& ids.no_duplicates()
    &&& forall |f: u64| (#[trigger] w0.data.contains_key(f) && !w.data.contains_key(f)) <==> ids.contains(f)
    &&& forall |f: u64| (#[trigger] w.data.contains_key(f) && !w0.data.contains_key(f)) <==> lo <= f <= hi + 1
    &&& w.data.contains_key((hi + 1) as u64) && fsize(w.data[(hi + 1) as u64].recs) == 0
    &&& range_size(w, lo as int, hi as int) + sum_dead(kd0, w0, ids) == sum_size(w0, ids)
}

/// C13 (pure corollaries of merge_sizes): a merge pass never writes more than it removes, it reclaims exactly the dead
/// bytes of the files it removes, and over files without dead bytes it reproduces their size (fixpoint)
proof fn theorem_merge_never_grows(w0: &World, w: &World, kd0: Map<Bytes, KeyDirEntry>, ids: Seq<u64>, lo: u64, hi: u64)    //@[C13.never_grows]
    requires merge_sizes(w0, w, kd0, ids, lo, hi)
    ensures
        range_size(w, lo as int, hi as int) <= sum_size(w0, ids),
        sum_size(w0, ids) - range_size(w, lo as int, hi as int) == sum_dead(kd0, w0, ids),
        sum_dead(kd0, w0, ids) == 0 ==> range_size(w, lo as int, hi as int) == sum_size(w0, ids),
{}
