// ------------------------------ C10: whatever bytes a client sends ------------------------------
/// the map after a list of commands / the replies to them, one after the other
pub open spec fn fold_map(m: Map<Seq<u8>, Seq<u8>>, cs: Seq<SCmd>) -> Map<Seq<u8>, Seq<u8>>
    decreases cs.len()
{
    if cs.len() == 0 { m } else { effect(cs.last(), fold_map(m, cs.drop_last())) }
}
pub open spec fn fold_replies(m: Map<Seq<u8>, Seq<u8>>, cs: Seq<SCmd>) -> Seq<u8>
    decreases cs.len()
{
    if cs.len() == 0 { Seq::empty() } else { fold_replies(m, cs.drop_last()) + encode(reply(cs.last(), fold_map(m, cs.drop_last()))) }
}
pub proof fn lemma_fold_push(m: Map<Seq<u8>, Seq<u8>>, cs: Seq<SCmd>, c: SCmd)
    ensures
        fold_map(m, cs.push(c)) == effect(c, fold_map(m, cs)),
        fold_replies(m, cs.push(c)) == fold_replies(m, cs) + encode(reply(c, fold_map(m, cs))),
{
    assert(cs.push(c).drop_last() =~= cs);
}
