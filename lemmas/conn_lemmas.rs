// ------------------------------ spec library (connection layer): verified, not trusted ------------------------------
pub open spec fn crlf() -> Seq<u8> { seq![13u8, 10u8] }

/// The canonical RESP encoding of a frame (what the connection writes).
pub open spec fn encode(g: SFrame) -> Seq<u8>
    decreases g
{
    match g {
        SFrame::Simple(l) => seq![43u8] + l + crlf(),
        SFrame::Error(l) => seq![45u8] + l + crlf(),
        SFrame::Integer(v) => seq![58u8] + dec_text(v) + crlf(),
        SFrame::Bulk(b) => seq![36u8] + dec_text(b.len() as int) + crlf() + b + crlf(),
        SFrame::Null => seq![36u8, 45u8, 49u8, 13u8, 10u8],
        SFrame::Array(xs) => seq![42u8] + dec_text(xs.len() as int) + crlf() + encode_items(xs),
    }
}
pub open spec fn encode_items(xs: Seq<SFrame>) -> Seq<u8>
    decreases xs
{
    if xs.len() == 0 { Seq::empty() } else { encode(xs[0]) + encode_items(xs.skip(1)) }
}
/// Frames the connection can write: arrays are flat (write_single_value does not implement nesting).
pub open spec fn frame_writable(f: &Frame) -> bool {
    match f {
        Frame::Array(v) => forall |i: int| 0 <= i < v@.len() ==> !(#[trigger] v@[i] is Array),
        _ => true,
    }
}
pub proof fn lemma_encode_items_push(xs: Seq<SFrame>, x: SFrame)
    ensures encode_items(xs.push(x)) == encode_items(xs) + encode(x)
    decreases xs.len()
{
    if xs.len() == 0 {
        assert(xs.push(x).skip(1) =~= Seq::<SFrame>::empty());
        assert(encode_items(xs.push(x)) == encode(x) + encode_items(Seq::<SFrame>::empty()));
        assert(encode(x) + Seq::<u8>::empty() =~= encode(x));
        assert(Seq::<u8>::empty() + encode(x) =~= encode(x));
    } else {
        assert(xs.push(x).skip(1) =~= xs.skip(1).push(x));
        lemma_encode_items_push(xs.skip(1), x);
        assert(xs.push(x)[0] == xs[0]);
        assert(encode(xs[0]) + (encode_items(xs.skip(1)) + encode(x)) =~= encode(xs[0]) + encode_items(xs.skip(1)) + encode(x));
    }
}

// ---- what makes a frame encodable: well-formed value within the nesting budget ------------------
pub open spec fn wf_frame(g: SFrame, fuel: nat) -> bool
    decreases g
{
    match g {
        SFrame::Simple(l) => no_crlf(l) && utf8_ok(l),
        SFrame::Error(l) => no_crlf(l) && utf8_ok(l),
        SFrame::Integer(v) => i64::MIN <= v <= i64::MAX,
        SFrame::Bulk(b) => b.len() <= i64::MAX,
        SFrame::Null => true,
        SFrame::Array(xs) => fuel > 0 && xs.len() <= i64::MAX
            && forall |i: int| 0 <= i < xs.len() ==> wf_frame(#[trigger] xs[i], (fuel - 1) as nat),
    }
}
pub open spec fn starts_with(d: Seq<u8>, s: int, p: Seq<u8>) -> bool {
    0 <= s && s + p.len() <= d.len() && d.subrange(s, s + p.len()) == p
}

proof fn lemma_starts_with_index(d: Seq<u8>, s: int, p: Seq<u8>, i: int)
    requires starts_with(d, s, p), 0 <= i < p.len()
    ensures d[s + i] == p[i]
{
    assert(d.subrange(s, s + p.len())[i] == d[s + i]);
}
proof fn lemma_starts_with_split(d: Seq<u8>, s: int, a: Seq<u8>, b: Seq<u8>)
    requires starts_with(d, s, a + b)
    ensures starts_with(d, s, a), starts_with(d, s + a.len(), b)
{
    let p = a + b;
    assert forall |i: int| 0 <= i < a.len() implies d.subrange(s, s + a.len())[i] == a[i] by {
        lemma_starts_with_index(d, s, p, i);
    }
    assert(d.subrange(s, s + a.len()) =~= a);
    assert forall |i: int| 0 <= i < b.len() implies d.subrange(s + a.len(), s + a.len() + b.len())[i] == b[i] by {
        lemma_starts_with_index(d, s, p, a.len() + i);
    }
    assert(d.subrange(s + a.len(), s + a.len() + b.len()) =~= b);
}

/// "<text>\r\n" at s, text without CR: the line ends right after the text
proof fn lemma_line_at(d: Seq<u8>, s: int, txt: Seq<u8>)
    requires starts_with(d, s, txt + crlf()), forall |i: int| 0 <= i < txt.len() ==> #[trigger] txt[i] != 13
    ensures line_end(d, s) == Some(s + txt.len()), d.subrange(s, s + txt.len()) == txt, d[s + txt.len() + 1] == 10
{
    let p = txt + crlf();
    lemma_starts_with_index(d, s, p, txt.len() as int);
    lemma_starts_with_index(d, s, p, txt.len() as int + 1);
    assert forall |j: int| s <= j < s + txt.len() implies #[trigger] d[j] != 13 by {
        lemma_starts_with_index(d, s, p, j - s);
        assert(p[j - s] == txt[j - s]);
    }
    lemma_line_end_is(d, s, s + txt.len());
    lemma_starts_with_split(d, s, txt, crlf());
}
/// "<canonical decimal of v>\r\n" at s
proof fn lemma_int_at(d: Seq<u8>, s: int, v: int)
    requires starts_with(d, s, dec_text(v) + crlf()), i64::MIN <= v <= i64::MAX
    ensures canon_int(d, s), int_line(d, s) == Some((v, dec_text(v).len() as int + 2)), d[s] != 45 || v < 0, v >= 0 ==> is_digit(d[s])
{
    let txt = dec_text(v);
    lemma_dec_text(v);
    assert forall |i: int| 0 <= i < txt.len() implies #[trigger] txt[i] != 13 by { }
    lemma_line_at(d, s, txt);
    lemma_starts_with_index(d, s, txt + crlf(), 0);
    assert((txt + crlf())[0] == txt[0]);
}

// ---- encode => canonical (C08 round trip, parser half) ---------------------------------------------
pub proof fn lemma_encode_canon(g: SFrame, d: Seq<u8>, s: int, fuel: nat)
    requires wf_frame(g, fuel), starts_with(d, s, encode(g))
    ensures canon(d, s, fuel), frame_len(d, s, fuel) == Some(encode(g).len() as int), frame_val(d, s, fuel) == g
    decreases g
{
    let e = encode(g);
    match g {
        SFrame::Simple(l) => {
            assert(e =~= seq![43u8] + (l + crlf()));
            lemma_starts_with_split(d, s, seq![43u8], l + crlf());
            lemma_starts_with_index(d, s, seq![43u8], 0);
            assert forall |i: int| 0 <= i < l.len() implies #[trigger] l[i] != 13 by { }
            lemma_line_at(d, s + 1, l);
            assert(no_lf(l));
        },
        SFrame::Error(l) => {
            assert(e =~= seq![45u8] + (l + crlf()));
            lemma_starts_with_split(d, s, seq![45u8], l + crlf());
            lemma_starts_with_index(d, s, seq![45u8], 0);
            assert forall |i: int| 0 <= i < l.len() implies #[trigger] l[i] != 13 by { }
            lemma_line_at(d, s + 1, l);
            assert(no_lf(l));
        },
        SFrame::Integer(v) => {
            assert(e =~= seq![58u8] + (dec_text(v) + crlf()));
            lemma_starts_with_split(d, s, seq![58u8], dec_text(v) + crlf());
            lemma_starts_with_index(d, s, seq![58u8], 0);
            lemma_int_at(d, s + 1, v);
        },
        SFrame::Bulk(b) => {
            let txt = dec_text(b.len() as int);
            assert(e =~= seq![36u8] + ((txt + crlf()) + (b + crlf())));
            lemma_starts_with_split(d, s, seq![36u8], (txt + crlf()) + (b + crlf()));
            lemma_starts_with_index(d, s, seq![36u8], 0);
            lemma_starts_with_split(d, s + 1, txt + crlf(), b + crlf());
            lemma_int_at(d, s + 1, b.len() as int);
            let p = s + 1 + txt.len() + 2;
            lemma_starts_with_split(d, p, b, crlf());
            lemma_starts_with_index(d, p + b.len(), crlf(), 0);
            lemma_starts_with_index(d, p + b.len(), crlf(), 1);
        },
        SFrame::Null => {
            assert(e =~= seq![36u8] + null_tail());
            lemma_starts_with_split(d, s, seq![36u8], null_tail());
            lemma_starts_with_index(d, s, seq![36u8], 0);
            lemma_starts_with_index(d, s + 1, null_tail(), 0);
        },
        SFrame::Array(xs) => {
            let txt = dec_text(xs.len() as int);
            assert(e =~= seq![42u8] + ((txt + crlf()) + encode_items(xs)));
            lemma_starts_with_split(d, s, seq![42u8], (txt + crlf()) + encode_items(xs));
            lemma_starts_with_index(d, s, seq![42u8], 0);
            lemma_starts_with_split(d, s + 1, txt + crlf(), encode_items(xs));
            lemma_int_at(d, s + 1, xs.len() as int);
            lemma_encode_items_canon(xs, d, s + 1 + txt.len() + 2, (fuel - 1) as nat);
        },
    }
}
pub proof fn lemma_encode_items_canon(xs: Seq<SFrame>, d: Seq<u8>, p: int, fuel: nat)
    requires forall |i: int| 0 <= i < xs.len() ==> wf_frame(#[trigger] xs[i], fuel), starts_with(d, p, encode_items(xs))
    ensures canon_items(d, p, xs.len(), fuel), items_len(d, p, xs.len(), fuel) == Some(encode_items(xs).len() as int),
            items_val(d, p, xs.len(), fuel) == xs
    decreases xs
{
    if xs.len() == 0 {
        assert(items_val(d, p, 0, fuel) =~= xs);
    } else {
        lemma_starts_with_split(d, p, encode(xs[0]), encode_items(xs.skip(1)));
        lemma_encode_canon(xs[0], d, p, fuel);
        let a = encode(xs[0]).len() as int;
        assert forall |i: int| 0 <= i < xs.skip(1).len() implies wf_frame(#[trigger] xs.skip(1)[i], fuel) by {
            assert(xs.skip(1)[i] == xs[i + 1]);
        }
        lemma_encode_items_canon(xs.skip(1), d, p + a, fuel);
        assert(xs.skip(1).len() == xs.len() - 1);
        assert(seq![xs[0]] + xs.skip(1) =~= xs);
    }
}

// ---- truncation stability ---------------------------------------------------------------------------
proof fn lemma_line_end_take(d: Seq<u8>, s: int, k: int)
    requires 0 <= s <= k <= d.len(), line_end(d, s) is Some
    ensures
        line_end(d, s)->0 + 2 <= k ==> line_end(d.take(k), s) == line_end(d, s),
        line_end(d, s)->0 + 2 > k ==> line_end(d.take(k), s) is None && forall |j: int| s <= j < k - 1 ==> #[trigger] d.take(k)[j] != 13,
{
    let t = d.take(k);
    let e = line_end(d, s)->0;
    lemma_line_end_some(d, s);
    if e + 2 <= k {
        assert forall |j: int| s <= j < e implies #[trigger] t[j] != 13 by { assert(t[j] == d[j]); }
        lemma_line_end_is(t, s, e);
    } else {
        assert forall |j: int| s <= j < k - 1 implies #[trigger] t[j] != 13 by { assert(t[j] == d[j]); }
        lemma_line_end_none(t, s);
    }
}
/// a canonical integer line cut before its end is an integer prefix
proof fn lemma_canon_int_cut(d: Seq<u8>, s: int, k: int)
    requires 0 <= s <= k <= d.len(), canon_int(d, s), line_end(d, s)->0 + 2 > k
    ensures int_pfx(d.take(k), s)
{
    let t = d.take(k);
    let e = line_end(d, s)->0;
    lemma_line_end_some(d, s);
    let txt = d.subrange(s, e);
    let v = int_text_value(txt);
    lemma_dec_text(v);
    if s < k {
        assert(t[s] == d[s]);
        assert(txt[0] == d[s]);
        let b = if t[s] == 45 { s + 1 } else { s };
        if b < k - 1 {
            assert forall |i: int| 0 <= i < t.subrange(b, k - 1).len() implies is_digit(#[trigger] t.subrange(b, k - 1)[i]) by {
                let j = b + i;
                assert(t.subrange(b, k - 1)[i] == d[j]);
                assert(j < e);
                assert(txt[j - s] == d[j]);
                if v < 0 { assert(txt.skip(1)[j - s - 1] == txt[j - s]); assert(is_digit(txt.skip(1)[j - s - 1])); }
                else { assert(is_digit(txt[j - s])); }
            }
        }
    }
}
proof fn lemma_canon_int_keep(d: Seq<u8>, s: int, k: int)
    requires 0 <= s <= k <= d.len(), canon_int(d, s), line_end(d, s)->0 + 2 <= k
    ensures canon_int(d.take(k), s), int_line(d.take(k), s) == int_line(d, s)
{
    let t = d.take(k);
    let e = line_end(d, s)->0;
    lemma_line_end_some(d, s);
    lemma_line_end_take(d, s, k);
    assert(t.subrange(s, e) =~= d.subrange(s, e));
    assert(t[e + 1] == d[e + 1]);
    lemma_dec_text(int_text_value(d.subrange(s, e)));
}
proof fn lemma_int_pfx_take(d: Seq<u8>, s: int, k: int)
    requires 0 <= s <= k <= d.len(), int_pfx(d, s)
    ensures int_pfx(d.take(k), s)
{
    let t = d.take(k);
    if s < k {
        assert(t[s] == d[s]);
        let b = if d[s] == 45 { s + 1 } else { s };
        if b < k - 1 {
            assert forall |i: int| 0 <= i < t.subrange(b, k - 1).len() implies is_digit(#[trigger] t.subrange(b, k - 1)[i]) by {
                assert(t.subrange(b, k - 1)[i] == d.subrange(b, d.len() - 1)[i]);
            }
        }
    }
}

spec fn take_ok(d: Seq<u8>, s: int, fuel: nat, k: int) -> bool {
    &&& frame_len(d, s, fuel) is Some
    &&& (k >= s + frame_len(d, s, fuel)->0 ==> canon(d.take(k), s, fuel)
            && frame_len(d.take(k), s, fuel) == frame_len(d, s, fuel)
            && frame_val(d.take(k), s, fuel) == frame_val(d, s, fuel))
    &&& (k < s + frame_len(d, s, fuel)->0 ==> pfx(d.take(k), s, fuel))
}
proof fn lemma_canon_take_line(d: Seq<u8>, s: int, fuel: nat, k: int)
    requires canon(d, s, fuel), s < k <= d.len(), d[s] == 43 || d[s] == 45
    ensures take_ok(d, s, fuel, k)
{
    let t = d.take(k);
    lemma_line_end_some(d, s + 1);
    assert(t[s] == d[s]);
    let e = line_end(d, s + 1)->0;
    lemma_line_end_take(d, s + 1, k);
    if e + 2 <= k {
        assert(t.subrange(s + 1, e) =~= d.subrange(s + 1, e));
        assert(t[e + 1] == d[e + 1]);
    } else {
        assert forall |j: int| s + 1 <= j < t.len() - 1 implies #[trigger] t[j] != 13 && t[j] != 10 by {
            assert(t[j] == d[j]);
            assert(d.subrange(s + 1, e)[j - (s + 1)] == d[j]);
        }
    }
}
proof fn lemma_canon_take_int(d: Seq<u8>, s: int, fuel: nat, k: int)
    requires canon(d, s, fuel), s < k <= d.len(), d[s] == 58
    ensures take_ok(d, s, fuel, k)
{
    let t = d.take(k);
    lemma_line_end_some(d, s + 1);
    assert(t[s] == d[s]);
    let e = line_end(d, s + 1)->0;
    if e + 2 <= k { lemma_canon_int_keep(d, s + 1, k); lemma_line_end_take(d, s + 1, k); } else { lemma_canon_int_cut(d, s + 1, k); }
}
proof fn lemma_canon_take_null(d: Seq<u8>, s: int, fuel: nat, k: int)
    requires canon(d, s, fuel), s < k <= d.len(), d[s] == 36, s + 1 < d.len() && d[s + 1] == 45
    ensures take_ok(d, s, fuel, k)
{
    let t = d.take(k);
    assert(t[s] == d[s]);
    if k >= s + 5 {
        assert(t.subrange(s + 1, s + 5) =~= d.subrange(s + 1, s + 5));
        assert(t[s + 1] == d[s + 1]);
    } else if k > s + 1 {
        assert(t[s + 1] == d[s + 1]);
        assert forall |i: int| 0 <= i < k - s - 1 implies #[trigger] t.subrange(s + 1, t.len() as int)[i] == null_tail().take(k - s - 1)[i] by {
            assert(t.subrange(s + 1, t.len() as int)[i] == d.subrange(s + 1, s + 5)[i]);
        }
        assert(t.subrange(s + 1, t.len() as int) =~= null_tail().take(t.len() - s - 1));
    } else {
        assert(int_pfx(t, s + 1));
    }
}
proof fn lemma_canon_take_bulk(d: Seq<u8>, s: int, fuel: nat, k: int)
    requires canon(d, s, fuel), s < k <= d.len(), d[s] == 36, !(s + 1 < d.len() && d[s + 1] == 45)
    ensures take_ok(d, s, fuel, k)
{
    let t = d.take(k);
    lemma_line_end_some(d, s + 1);
    assert(t[s] == d[s]);
    let e = line_end(d, s + 1)->0;
    let v = (int_line(d, s + 1)->0).0;
    let m = (int_line(d, s + 1)->0).1;
    lemma_dec_text(v);
    assert(d.subrange(s + 1, e)[0] == d[s + 1]);
    assert(is_digit(d[s + 1]));
    if e + 2 <= k {
        lemma_canon_int_keep(d, s + 1, k);
        lemma_line_end_take(d, s + 1, k);
        assert(t[s + 1] == d[s + 1]);
        if k >= s + 1 + m + v + 2 {
            assert(t.subrange(s + 1 + m, s + 1 + m + v) =~= d.subrange(s + 1 + m, s + 1 + m + v));
            assert(t[s + 1 + m + v] == d[s + 1 + m + v] && t[s + 1 + m + v + 1] == d[s + 1 + m + v + 1]);
        }
    } else {
        lemma_canon_int_cut(d, s + 1, k);
        if s + 1 < k { assert(t[s + 1] == d[s + 1]); }
    }
}

/// Truncation stability of a canonical frame: cutting the buffer at k keeps the frame intact when the
/// cut is behind it and leaves a strict prefix otherwise.
pub proof fn lemma_canon_take(d: Seq<u8>, s: int, fuel: nat, k: int)
    requires canon(d, s, fuel), s <= k <= d.len(),
    ensures
        frame_len(d, s, fuel) is Some,
        k >= s + frame_len(d, s, fuel)->0 ==> canon(d.take(k), s, fuel)
            && frame_len(d.take(k), s, fuel) == frame_len(d, s, fuel)
            && frame_val(d.take(k), s, fuel) == frame_val(d, s, fuel),
        k < s + frame_len(d, s, fuel)->0 ==> pfx(d.take(k), s, fuel),
    decreases fuel, 0nat, 0nat
{
    let t = d.take(k);
    if k == s {
        lemma_frame_len_canon_some(d, s, fuel);
        lemma_frame_len_bounds(d, s, fuel);
    } else if d[s] == 43 || d[s] == 45 {
        lemma_canon_take_line(d, s, fuel, k);
    } else if d[s] == 58 {
        lemma_canon_take_int(d, s, fuel, k);
    } else if d[s] == 36 {
        if s + 1 < d.len() && d[s + 1] == 45 { lemma_canon_take_null(d, s, fuel, k); } else { lemma_canon_take_bulk(d, s, fuel, k); }
    } else if d[s] == 42 {
        lemma_line_end_some(d, s + 1);
        assert(t[s] == d[s]);
        let e = line_end(d, s + 1)->0;
        let v = (int_line(d, s + 1)->0).0;
        let m = (int_line(d, s + 1)->0).1;
        if e + 2 <= k {
            lemma_canon_int_keep(d, s + 1, k);
            lemma_line_end_take(d, s + 1, k);
            lemma_canon_items_take(d, s + 1 + m, v as nat, (fuel - 1) as nat, k);
        } else {
            lemma_canon_int_cut(d, s + 1, k);
            lemma_canon_items_len_some(d, s + 1 + m, v as nat, (fuel - 1) as nat);
            lemma_items_len_bounds(d, s + 1 + m, v as nat, (fuel - 1) as nat);
        }
    }
}
proof fn lemma_frame_len_canon_some(d: Seq<u8>, s: int, fuel: nat)
    requires canon(d, s, fuel)
    ensures frame_len(d, s, fuel) is Some
    decreases fuel, 0nat, 0nat
{
    lemma_line_end_some(d, s + 1);
    if d[s] == 42 {
        let v = (int_line(d, s + 1)->0).0;
        let m = (int_line(d, s + 1)->0).1;
        lemma_canon_items_len_some(d, s + 1 + m, v as nat, (fuel - 1) as nat);
    } else if d[s] == 36 {
    }
}
proof fn lemma_canon_items_len_some(d: Seq<u8>, p: int, cnt: nat, fuel: nat)
    requires canon_items(d, p, cnt, fuel)
    ensures items_len(d, p, cnt, fuel) is Some
    decreases fuel, 1nat, cnt
{
    if cnt > 0 {
        let a = frame_len(d, p, fuel)->0;
        lemma_canon_items_len_some(d, p + a, (cnt - 1) as nat, fuel);
    }
}
proof fn lemma_canon_items_take(d: Seq<u8>, p: int, cnt: nat, fuel: nat, k: int)
    requires canon_items(d, p, cnt, fuel), 0 <= p <= k <= d.len()
    ensures
        items_len(d, p, cnt, fuel) is Some,
        k >= p + items_len(d, p, cnt, fuel)->0 ==> canon_items(d.take(k), p, cnt, fuel)
            && items_len(d.take(k), p, cnt, fuel) == items_len(d, p, cnt, fuel)
            && items_val(d.take(k), p, cnt, fuel) == items_val(d, p, cnt, fuel),
        k < p + items_len(d, p, cnt, fuel)->0 ==> items_pfx(d.take(k), p, cnt, fuel),
    decreases fuel, 1nat, cnt
{
    let t = d.take(k);
    lemma_canon_items_len_some(d, p, cnt, fuel);
    if cnt > 0 {
        let a = frame_len(d, p, fuel)->0;
        lemma_frame_len_bounds(d, p, fuel);
        lemma_canon_take(d, p, fuel, k);
        lemma_canon_items_len_some(d, p + a, (cnt - 1) as nat, fuel);
        lemma_items_len_bounds(d, p + a, (cnt - 1) as nat, fuel);
        if k >= p + a {
            lemma_canon_items_take(d, p + a, (cnt - 1) as nat, fuel, k);
        }
    } else {
        assert(items_val(t, p, 0, fuel) =~= items_val(d, p, 0, fuel));
    }
}

/// A prefix of a strict prefix is a strict prefix.
pub proof fn lemma_pfx_take(d: Seq<u8>, s: int, fuel: nat, k: int)
    requires pfx(d, s, fuel), s <= k <= d.len(),
    ensures pfx(d.take(k), s, fuel),
    decreases fuel, 0nat, 0nat
{
    let t = d.take(k);
    if s >= d.len() {
        assert(t =~= d);
    } else if k == s {
    } else {
        assert(t[s] == d[s]);
        lemma_line_end_some(d, s + 1);
        if d[s] == 43 || d[s] == 45 {
            assert forall |j: int| s + 1 <= j < t.len() - 1 implies #[trigger] t[j] != 13 && t[j] != 10 by { assert(t[j] == d[j]); }
        } else if d[s] == 58 {
            lemma_int_pfx_take(d, s + 1, k);
        } else if d[s] == 36 {
            if s + 1 < d.len() && d[s + 1] == 45 {
                if k > s + 1 {
                    assert(t[s + 1] == d[s + 1]);
                    assert forall |i: int| 0 <= i < k - s - 1 implies #[trigger] t.subrange(s + 1, t.len() as int)[i] == null_tail().take(k - s - 1)[i] by {
                        assert(t.subrange(s + 1, t.len() as int)[i] == d.subrange(s + 1, d.len() as int)[i]);
                    }
                    assert(t.subrange(s + 1, t.len() as int) =~= null_tail().take(t.len() - s - 1));
                }
            } else {
                if s + 1 < k { assert(t[s + 1] == d[s + 1]); }
                if int_pfx(d, s + 1) {
                    lemma_int_pfx_take(d, s + 1, k);
                } else {
                    let e = line_end(d, s + 1)->0;
                    if e + 2 <= k { lemma_canon_int_keep(d, s + 1, k); } else { lemma_canon_int_cut(d, s + 1, k); }
                }
            }
        } else if d[s] == 42 {
            if int_pfx(d, s + 1) {
                lemma_int_pfx_take(d, s + 1, k);
            } else {
                let e = line_end(d, s + 1)->0;
                let v = (int_line(d, s + 1)->0).0;
                let m = (int_line(d, s + 1)->0).1;
                if e + 2 <= k {
                    lemma_canon_int_keep(d, s + 1, k);
                    lemma_items_pfx_take(d, s + 1 + m, v as nat, (fuel - 1) as nat, k);
                } else {
                    lemma_canon_int_cut(d, s + 1, k);
                }
            }
        }
    }
}
proof fn lemma_items_pfx_take(d: Seq<u8>, p: int, cnt: nat, fuel: nat, k: int)
    requires items_pfx(d, p, cnt, fuel), 0 <= p <= k <= d.len()
    ensures items_pfx(d.take(k), p, cnt, fuel)
    decreases fuel, 1nat, cnt
{
    if pfx(d, p, fuel) {
        lemma_pfx_take(d, p, fuel, k);
    } else {
        let a = frame_len(d, p, fuel)->0;
        lemma_frame_len_bounds(d, p, fuel);
        lemma_canon_take(d, p, fuel, k);
        if k >= p + a {
            lemma_items_pfx_take(d, p + a, (cnt - 1) as nat, fuel, k);
        }
    }
}

// ---- the statement-level theorems of C08 -----------------------------------------------------------
/// strings of a frame are free of CR / LF (the statement's "simple strings and errors without CR/LF")
pub open spec fn strings_clean(g: SFrame) -> bool
    decreases g
{
    match g {
        SFrame::Simple(l) => no_crlf(l),
        SFrame::Error(l) => no_crlf(l),
        SFrame::Array(xs) => forall |i: int| 0 <= i < xs.len() ==> strings_clean(#[trigger] xs[i]),
        _ => true,
    }
}
proof fn lemma_flat_wf(f: &Frame, fuel: nat)
    requires !(f is Array), strings_clean(fview(f))
    ensures wf_frame(fview(f), fuel)
{
    match f {
        Frame::SimpleString(s) => { axiom_string_utf8(s); },
        Frame::Error(s) => { axiom_string_utf8(s); },
        Frame::BulkString(b) => { axiom_bytes_len(*b); },
        _ => {},
    }
}
/// every frame the connection can write has a well-formed view within the nesting budget
pub proof fn lemma_writable_wf(f: &Frame)
    requires frame_writable(f), strings_clean(fview(f))
    ensures wf_frame(fview(f), max_fuel())
{
    lemma_max_fuel();
    match f {
        Frame::Array(v) => {
            let xs = fview(f)->Array_0;
            axiom_frame_vec_len(v);
            assert forall |i: int| 0 <= i < xs.len() implies wf_frame(#[trigger] xs[i], (max_fuel() - 1) as nat) by {
                assert(xs[i] == fview(&v@[i]));
                assert(!(v@[i] is Array));
                lemma_flat_wf(&v@[i], (max_fuel() - 1) as nat);
            }
        },
        _ => { lemma_flat_wf(f, max_fuel()); },
    }
}
/// C08: a stream that starts with the encoding of a writable frame decodes to that frame, whole length,
/// whatever follows it.
pub proof fn theorem_roundtrip(f: &Frame, rest: Seq<u8>)    //@[C08.roundtrip]
    requires frame_writable(f), strings_clean(fview(f))
    ensures
        canon(encode(fview(f)) + rest, 0, max_fuel()),
        frame_len(encode(fview(f)) + rest, 0, max_fuel()) == Some(encode(fview(f)).len() as int),
        frame_val(encode(fview(f)) + rest, 0, max_fuel()) == fview(f),
        (encode(fview(f)) + rest).skip(encode(fview(f)).len() as int) == rest,
{
    let e = encode(fview(f));
    let d = e + rest;
    lemma_writable_wf(f);
    assert(d.subrange(0, e.len() as int) =~= e);
    lemma_encode_canon(fview(f), d, 0, max_fuel());
    assert(d.skip(e.len() as int) =~= rest);
}
/// C08: every strict prefix of a valid encoding is a prefix (reported as incomplete by check / parse
/// / parse_frame, C08.*.prefix), and stays one however it is cut further.
pub proof fn theorem_prefix_incomplete(f: &Frame, k: int)    //@[C08.prefix_incomplete]
    requires frame_writable(f), strings_clean(fview(f)), 0 <= k < encode(fview(f)).len()
    ensures pfx(encode(fview(f)).take(k), 0, max_fuel())
{
    let e = encode(fview(f));
    theorem_roundtrip(f, Seq::empty());
    assert(e + Seq::<u8>::empty() =~= e);
    lemma_canon_take(e, 0, max_fuel(), k);
}
/// C08: concatenations. After the first frame of `encode(f) ++ rest` has been read the connection is
/// left with exactly `rest` (C08.read_frame.chunk_independent), so by induction on the list a
/// concatenation of encodings is decoded frame by frame; the empty remainder is a clean end
/// (C08.read_frame.clean_end).
pub open spec fn encode_all(fs: Seq<Frame>) -> Seq<u8>
    decreases fs.len()
{
    if fs.len() == 0 { Seq::empty() } else { encode(fview(&fs[0])) + encode_all(fs.skip(1)) }
}
pub proof fn theorem_concat_step(fs: Seq<Frame>)    //@[C08.concat]
    requires fs.len() > 0, forall |i: int| 0 <= i < fs.len() ==> frame_writable(#[trigger] &fs[i]) && strings_clean(fview(&fs[i]))
    ensures
        canon(encode_all(fs), 0, max_fuel()),
        frame_val(encode_all(fs), 0, max_fuel()) == fview(&fs[0]),
        frame_len(encode_all(fs), 0, max_fuel()) is Some,
        encode_all(fs).skip(frame_len(encode_all(fs), 0, max_fuel())->0) == encode_all(fs.skip(1)),
{
    theorem_roundtrip(&fs[0], encode_all(fs.skip(1)));
}
/// the nesting budget admits at least a flat array (a request)
pub proof fn lemma_max_fuel_pos() ensures max_fuel() >= 1 { lemma_max_fuel(); }
