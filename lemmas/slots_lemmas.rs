// C15: the slot accounting as a transition system over the ghost counters, and what the two verified functions contribute.
pub open spec fn slots_inv(g: Slots) -> bool {
    &&& g.held == 0
    &&& 0 <= g.avail
    &&& g.avail + g.owed == g.max
    &&& g.owed == g.handlers
    &&& 0 <= g.handlers
}
/// one turn of the accept loop (Listener::listen): a permit is taken for good, then exactly one connection task is started
pub open spec fn step_accept(a: Slots, b: Slots) -> bool {
    a.avail > 0 && b.max == a.max && b.held == a.held && b.avail == a.avail - 1 && b.owed == a.owed + 1 && b.handlers == a.handlers + 1
}
/// a connection task ends, however it ends (TDROP: Rust drops its Handler exactly once, also while unwinding): Drop for Handler runs
pub open spec fn step_end(a: Slots, b: Slots) -> bool {
    a.handlers > 0 && b.max == a.max && b.held == a.held && b.avail == a.avail + 1 && b.owed == a.owed - 1 && b.handlers == a.handlers - 1
}
/// ghost checkpoint at the end of the loop body of Listener::listen
pub proof fn accept_turn(a: Slots, b: Slots)
    requires slots_inv(a) ==> step_accept(a, b),   //@[C15.listen.one_permit_per_connection]
{}
/// every history of accept turns and handler ends, from a semaphore created with `max` permits, keeps the accounting exact:
/// never more than `max` connection tasks exist, and the permits that are not available are exactly those of live tasks
/// (so when all connections have gone, all `max` permits are available again)
pub proof fn theorem_slots(trace: Seq<Slots>, max: int)    //@[C15.limit_and_no_leak]
    requires
        max >= 0, trace.len() > 0,
        trace[0].max == max && trace[0].avail == max && trace[0].held == 0 && trace[0].owed == 0 && trace[0].handlers == 0,
        forall |i: int| 0 <= i < trace.len() - 1 ==> step_accept(#[trigger] trace[i], trace[i + 1]) || step_end(trace[i], trace[i + 1]),
    ensures
        forall |i: int| 0 <= i < trace.len() ==> slots_inv(#[trigger] trace[i]) && trace[i].max == max
            && trace[i].handlers <= max && trace[i].avail == max - trace[i].handlers,
    decreases trace.len()
{
    if trace.len() > 1 {
        let t = trace.drop_last();
        assert forall |i: int| 0 <= i < t.len() - 1 implies step_accept(#[trigger] t[i], t[i + 1]) || step_end(t[i], t[i + 1]) by {
            assert(t[i] == trace[i] && t[i + 1] == trace[i + 1]);
        }
        theorem_slots(t, max);
        let n = trace.len() - 1;
        assert(t[n - 1] == trace[n - 1]);
        assert(step_accept(trace[n - 1], trace[n]) || step_end(trace[n - 1], trace[n]));
        assert forall |i: int| 0 <= i < trace.len() implies slots_inv(#[trigger] trace[i]) && trace[i].max == max
            && trace[i].handlers <= max && trace[i].avail == max - trace[i].handlers by {
            if i < n { assert(t[i] == trace[i]); }
        }
    }
}
/// the contract of Drop for Handler is exactly the semaphore part of step_end
pub proof fn lemma_drop_is_step_end(a: Slots, b: Slots)
    requires a.handlers > 0, b.avail == a.avail + 1, b.owed == a.owed - 1, b.held == a.held, b.max == a.max, b.handlers == a.handlers
    ensures step_end(a, Slots { handlers: a.handlers - 1, ..b })
{}
