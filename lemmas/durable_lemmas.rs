// ------------------------------ C09: power loss ------------------------------
/// `w2` is a directory a power loss can leave behind `w`: per file independently, any suffix written after that
/// file's last completed fsync may be missing; creations and removals already issued persist
spec fn after_power_loss(w: &World, w2: &World) -> bool {
    &&& w2.data.dom() == w.data.dom() && w2.hint.dom() == w.hint.dom() && w2.ever == w.ever
    &&& forall |f: u64| #[trigger] w.data.contains_key(f) ==>
            exists |n: int| w.data[f].synced <= n <= w.data[f].recs.len() && w2.data[f].recs == #[trigger] w.data[f].recs.take(n)
    &&& forall |f: u64| #[trigger] w.hint.contains_key(f) ==>
            exists |n: int| w.hint[f].synced <= n <= w.hint[f].recs.len() && w2.hint[f].recs == #[trigger] w.hint[f].recs.take(n)
}

/// C09: from a directory in which every record is covered by an fsync, a power loss takes nothing away: start-up
/// reads the same log and therefore recovers the same key directory (with C02: every acknowledged write is there)
proof fn theorem_power_loss(w: &World, w2: &World)    //@[C09.power_loss]
    requires all_synced(*w), after_power_loss(w, w2)
    ensures full_log(w2) == full_log(w), spec_recover(w2) == spec_recover(w)
{
    assert forall |id: u64| id < ID_BOUND implies #[trigger] file_log(w, id) == file_log(w2, id) by {
        if w.data.contains_key(id) {
            assert(w2.data.dom().contains(id));
            let n = choose |n: int| w.data[id].synced <= n <= w.data[id].recs.len() && w2.data[id].recs == #[trigger] w.data[id].recs.take(n);
            assert(w.data[id].recs.take(n) =~= w.data[id].recs);
            if w.hint.contains_key(id) {
                assert(w2.hint.dom().contains(id));
                let m = choose |m: int| w.hint[id].synced <= m <= w.hint[id].recs.len() && w2.hint[id].recs == #[trigger] w.hint[id].recs.take(m);
                assert(w.hint[id].recs.take(m) =~= w.hint[id].recs);
            } else {
                assert(!w2.hint.dom().contains(id));
            }
        } else {
            assert(!w2.data.dom().contains(id));
        }
    }
    lemma_log_frame(w, w2, ID_BOUND);
}

// ------------------------------ C03: process crash during a write ------------------------------
/// Called (ghost) after every World call of Writer::write: if the process were killed here, a restart would see the
/// operation in flight either applied or not applied, and every earlier operation applied (`m0` is the map before
/// the operation; `started_recoverable`: the key directory was what a restart would rebuild when the operation began).
/// A kill in the middle of a World call leaves a state the World also produces when that call fails (records
/// unchanged, possibly a torn tail), which the error exits of the same function cover (C20.*.err_recoverable).
proof fn crash_point(w: &World, m0: Map<Bytes, Bytes>, key: Bytes, value: Option<Bytes>, started_recoverable: bool)
    requires started_recoverable ==> (recover_model(w) == m0 || recover_model(w) == apply_model(m0, key, value)),   //@[C03.write.crash_point]
{}
