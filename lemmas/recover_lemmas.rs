// ------------------------------ recovery: the specification of start-up (verified, not trusted) ------------------------------
/// one record of the recovery log
pub struct LRec { pub f: u64, pub key: Bytes, pub is_val: bool, pub pos: u64, pub len: u64, pub tstamp: i64 }

spec fn lrec_of_rec(f: u64, r: Rec) -> LRec { LRec { f: f, key: r.key, is_val: r.val is Some, pos: r.pos, len: r.len, tstamp: r.tstamp } }
spec fn lrec_of_hrec(f: u64, h: HRec) -> LRec { LRec { f: f, key: h.key, is_val: true, pos: h.pos, len: h.len, tstamp: h.tstamp } }
spec fn data_log(f: u64, recs: Seq<Rec>) -> Seq<LRec> { Seq::new(recs.len(), |i: int| lrec_of_rec(f, recs[i])) }
spec fn hint_log(f: u64, recs: Seq<HRec>) -> Seq<LRec> { Seq::new(recs.len(), |i: int| lrec_of_hrec(f, recs[i])) }
/// what start-up reads for data file `id`: its hint file if there is one, else the data file itself
spec fn file_log(w: &World, id: u64) -> Seq<LRec> {
    if !w.data.contains_key(id) { Seq::empty() }
    else if w.hint.contains_key(id) { hint_log(id, w.hint[id].recs) }
    else { data_log(id, w.data[id].recs) }
}
spec fn file_log_nohint(w: &World, id: u64) -> Seq<LRec> {
    if !w.data.contains_key(id) { Seq::empty() } else { data_log(id, w.data[id].recs) }
}
/// the directory read as one log: files in ascending id order (ids below n)
spec fn log_upto(w: &World, n: nat) -> Seq<LRec>
    decreases n
{
    if n == 0 { Seq::empty() } else { log_upto(w, (n - 1) as nat) + file_log(w, (n - 1) as u64) }
}
spec fn log_upto_nohint(w: &World, n: nat) -> Seq<LRec>
    decreases n
{
    if n == 0 { Seq::empty() } else { log_upto_nohint(w, (n - 1) as nat) + file_log_nohint(w, (n - 1) as u64) }
}
pub spec const ID_BOUND: nat = 0x4000_0000_0000_0000;
spec fn full_log(w: &World) -> Seq<LRec> { log_upto(w, ID_BOUND) }

/// a value record binds its key to its location, a tombstone removes the key
spec fn apply_l(kd: Map<Bytes, KeyDirEntry>, l: LRec) -> Map<Bytes, KeyDirEntry> {
    if l.is_val { kd.insert(l.key, KeyDirEntry { fileid: l.f, len: l.len, pos: l.pos, tstamp: l.tstamp }) } else { kd.remove(l.key) }
}
spec fn recover_from(kd0: Map<Bytes, KeyDirEntry>, log: Seq<LRec>) -> Map<Bytes, KeyDirEntry>
    decreases log.len()
{
    if log.len() == 0 { kd0 } else { apply_l(recover_from(kd0, log.drop_last()), log.last()) }
}
/// THE SPECIFICATION OF START-UP: the key directory a fresh open must compute
spec fn spec_recover(w: &World) -> Map<Bytes, KeyDirEntry> { recover_from(Map::empty(), full_log(w)) }
spec fn spec_recover_nohint(w: &World) -> Map<Bytes, KeyDirEntry> { recover_from(Map::empty(), log_upto_nohint(w, ID_BOUND)) }

proof fn lemma_recover_push(kd0: Map<Bytes, KeyDirEntry>, log: Seq<LRec>, l: LRec)
    ensures recover_from(kd0, log.push(l)) == apply_l(recover_from(kd0, log), l)
{
    assert(log.push(l).drop_last() =~= log);
}
proof fn lemma_recover_concat(kd0: Map<Bytes, KeyDirEntry>, a: Seq<LRec>, b: Seq<LRec>)
    ensures recover_from(kd0, a + b) == recover_from(recover_from(kd0, a), b)
    decreases b.len()
{
    if b.len() == 0 {
        assert(a + b =~= a);
    } else {
        assert((a + b).drop_last() =~= a + b.drop_last());
        assert((a + b).last() == b.last());
        lemma_recover_concat(kd0, a, b.drop_last());
    }
}
proof fn lemma_data_log_push(f: u64, recs: Seq<Rec>, r: Rec)
    ensures data_log(f, recs.push(r)) == data_log(f, recs).push(lrec_of_rec(f, r))
{
    assert(data_log(f, recs.push(r)) =~= data_log(f, recs).push(lrec_of_rec(f, r)));
}
proof fn lemma_data_log_take(f: u64, recs: Seq<Rec>, i: int)
    requires 0 <= i < recs.len()
    ensures data_log(f, recs).take(i + 1) == data_log(f, recs).take(i).push(lrec_of_rec(f, recs[i]))
{
    assert(data_log(f, recs).take(i + 1) =~= data_log(f, recs).take(i).push(lrec_of_rec(f, recs[i])));
}
proof fn lemma_hint_log_take(f: u64, recs: Seq<HRec>, i: int)
    requires 0 <= i < recs.len()
    ensures hint_log(f, recs).take(i + 1) == hint_log(f, recs).take(i).push(lrec_of_hrec(f, recs[i]))
{
    assert(hint_log(f, recs).take(i + 1) =~= hint_log(f, recs).take(i).push(lrec_of_hrec(f, recs[i])));
}

/// files whose logs agree below n give the same log
proof fn lemma_log_frame(w1: &World, w2: &World, n: nat)
    requires n <= u64::MAX, forall |id: u64| id < n ==> #[trigger] file_log(w1, id) == file_log(w2, id)
    ensures log_upto(w1, n) == log_upto(w2, n)
    decreases n
{
    if n > 0 { lemma_log_frame(w1, w2, (n - 1) as nat); assert(file_log(w1, (n - 1) as u64) == file_log(w2, (n - 1) as u64)); }
}
/// no data files in [a, b): the log does not grow
proof fn lemma_log_gap(w: &World, a: nat, b: nat)
    requires a <= b <= u64::MAX, forall |id: u64| a <= id < b ==> !w.data.contains_key(id)
    ensures log_upto(w, b) == log_upto(w, a)
    decreases b
{
    if a < b {
        lemma_log_gap(w, a, (b - 1) as nat);
        assert(!w.data.contains_key((b - 1) as u64));
        assert(log_upto(w, (b - 1) as nat) + Seq::<LRec>::empty() =~= log_upto(w, (b - 1) as nat));
    }
}
/// the log of the files of a strictly ascending id list
spec fn files_log(w: &World, ids: Seq<u64>) -> Seq<LRec>
    decreases ids.len()
{
    if ids.len() == 0 { Seq::empty() } else { files_log(w, ids.drop_last()) + file_log(w, ids.last()) }
}
spec fn ascending(ids: Seq<u64>) -> bool { forall |i: int, j: int| 0 <= i < j < ids.len() ==> ids[i] < ids[j] }
/// reading the data files in ascending id order reads the whole log
proof fn lemma_files_log_upto(w: &World, ids: Seq<u64>, n: nat)
    requires ascending(ids), n <= u64::MAX,
             forall |i: int| 0 <= i < ids.len() ==> #[trigger] ids[i] < n,
             forall |id: u64| id < n && w.data.contains_key(id) ==> ids.contains(id),
             forall |i: int| 0 <= i < ids.len() ==> w.data.contains_key(#[trigger] ids[i]),
    ensures files_log(w, ids) == log_upto(w, n)
    decreases ids.len()
{
    if ids.len() == 0 {
        assert forall |id: u64| 0 <= id < n implies !w.data.contains_key(id) by { if w.data.contains_key(id) { assert(ids.contains(id)); } }
        lemma_log_gap(w, 0, n);
    } else {
        let last = ids.last();
        let rest = ids.drop_last();
        assert(ids[ids.len() - 1] == last);
        // below `last` only ids of `rest`
        assert forall |id: u64| id < last && w.data.contains_key(id) implies rest.contains(id) by {
            assert(ids.contains(id));
            let k = choose |k: int| 0 <= k < ids.len() && ids[k] == id;
            assert(k < ids.len() - 1);
            assert(rest[k] == id);
        }
        assert forall |i: int| 0 <= i < rest.len() implies #[trigger] rest[i] < last by { assert(rest[i] == ids[i]); }
        assert forall |i: int| 0 <= i < rest.len() implies w.data.contains_key(#[trigger] rest[i]) by { assert(rest[i] == ids[i]); }
        assert(ascending(rest)) by {
            assert forall |i: int, j: int| 0 <= i < j < rest.len() implies rest[i] < rest[j] by { assert(rest[i] == ids[i] && rest[j] == ids[j]); }
        }
        lemma_files_log_upto(w, rest, last as nat);
        // (last, n) is empty
        assert forall |id: u64| last < id < n implies !w.data.contains_key(id) by {
            if w.data.contains_key(id) {
                assert(ids.contains(id));
                let k = choose |k: int| 0 <= k < ids.len() && ids[k] == id;
                if k < ids.len() - 1 { assert(ids[k] < ids[ids.len() - 1]); }
            }
        }
        lemma_log_gap(w, (last + 1) as nat, n);
        assert(log_upto(w, (last + 1) as nat) == log_upto(w, last as nat) + file_log(w, last));
    }
}

// ---- hint files ---------------------------------------------------------------------------------------
/// HintConsistent for one file: the hint records are, in order, exactly (key, pos, len, tstamp) of the
/// data file's records, all of which are values
spec fn hint_ok(w: &World, id: u64) -> bool {
    w.hint.contains_key(id) ==> {
        &&& w.data.contains_key(id)
        &&& w.hint[id].recs.len() == w.data[id].recs.len()
        &&& forall |i: int| 0 <= i < w.data[id].recs.len() ==> (#[trigger] w.data[id].recs[i]).val is Some
                && w.hint[id].recs[i] == (HRec { key: w.data[id].recs[i].key, tstamp: w.data[id].recs[i].tstamp, pos: w.data[id].recs[i].pos, len: w.data[id].recs[i].len })
    }
}
spec fn hints_ok(w: &World) -> bool { forall |id: u64| #[trigger] w.hint.contains_key(id) ==> hint_ok(w, id) }

proof fn lemma_hint_log_is_data_log(w: &World, id: u64)
    requires hint_ok(w, id), w.hint.contains_key(id)
    ensures hint_log(id, w.hint[id].recs) == data_log(id, w.data[id].recs)
{
    assert forall |i: int| 0 <= i < w.data[id].recs.len() implies hint_log(id, w.hint[id].recs)[i] == data_log(id, w.data[id].recs)[i] by {
        assert(w.data[id].recs[i].val is Some);
    }
    assert(hint_log(id, w.hint[id].recs) =~= data_log(id, w.data[id].recs));
}
/// C12: with consistent hint files, recovery with and without them computes the same key directory
proof fn theorem_hints_are_accelerators(w: &World)    //@[C12.hint_equiv]
    requires hints_ok(w)
    ensures spec_recover(w) == spec_recover_nohint(w)
{
    lemma_hint_equiv_upto(w, ID_BOUND);
}
proof fn lemma_hint_equiv_upto(w: &World, n: nat)
    requires hints_ok(w), n <= u64::MAX
    ensures log_upto(w, n) == log_upto_nohint(w, n)
    decreases n
{
    if n > 0 {
        lemma_hint_equiv_upto(w, (n - 1) as nat);
        let id = (n - 1) as u64;
        if w.data.contains_key(id) && w.hint.contains_key(id) { lemma_hint_log_is_data_log(w, id); }
    }
}

// ---- the partially read directory (used while start-up scans) -----------------------------------------
spec fn norm_file(g: DataG, i: int) -> DataG {
    DataG { recs: g.recs.take(i), size: if i >= g.recs.len() { g.size } else { g.recs[i].pos }, torn: false, synced: 0 }
}
/// data files with id < f completely, plus the first i records of file f
spec fn wview(w: &World, f: u64, i: int) -> World {
    World {
        data: Map::new(w.data.dom().filter(|g: u64| g <= f), |g: u64| if g == f { norm_file(w.data[g], i) } else { norm_file(w.data[g], w.data[g].recs.len() as int) }),
        hint: Map::empty(),
        ever: w.ever,
        pool_free: w.pool_free,
        pool_cap: w.pool_cap,
    }
}
proof fn lemma_recs_wf_take(recs: Seq<Rec>, size: int, i: int)
    requires recs_wf(recs, size), 0 <= i <= recs.len()
    ensures recs_wf(recs.take(i), if i >= recs.len() { size } else { recs[i].pos as int })
    decreases recs.len()
{
    if i >= recs.len() {
        assert(recs.take(i) =~= recs);
    } else if i == recs.len() - 1 {
        assert(recs.take(i) =~= recs.drop_last());
    } else {
        lemma_recs_wf_take(recs.drop_last(), recs.last().pos as int, i);
        assert(recs.drop_last().take(i) =~= recs.take(i));
        assert(recs.drop_last()[i] == recs[i]);
    }
}
proof fn lemma_wview_wf(w: &World, f: u64, i: int)
    requires world_wf(w), w.data.contains_key(f), 0 <= i <= w.data[f].recs.len()
    ensures world_wf(&wview(w, f, i))
{
    let v = wview(w, f, i);
    assert forall |g: u64| #[trigger] v.data.contains_key(g) implies v.ever.contains(g) && data_wf(v.data[g]) by {
        assert(w.data.contains_key(g));
        assert(data_wf(w.data[g]));
        let n = if g == f { i } else { w.data[g].recs.len() as int };
        lemma_recs_wf_take(w.data[g].recs, w.data[g].size as int, n);
        lemma_rec_at_bound(w.data[g].recs.take(n), v.data[g].size as int, 0);
        if n < w.data[g].recs.len() {
            lemma_rec_at_index(w.data[g].recs, w.data[g].size as int, n);
            lemma_rec_at_bound(w.data[g].recs, w.data[g].size as int, w.data[g].recs[n].pos);
        }
    }
}

/// reading one more record of file f
proof fn lemma_wview_step(w: &World, f: u64, i: int)
    requires world_wf(w), w.data.contains_key(f), 0 <= i < w.data[f].recs.len()
    ensures ({
        let v0 = wview(w, f, i); let v1 = wview(w, f, i + 1); let rc = w.data[f].recs[i];
        &&& world_wf(&v0) && world_wf(&v1) && v1.data.dom() == v0.data.dom() && v0.data.contains_key(f)
        &&& v1.data[f].recs == v0.data[f].recs.push(rc) && rc.pos == v0.data[f].size && rc.len > 0
        &&& forall |g: u64| g != f && v0.data.contains_key(g) ==> #[trigger] v1.data[g] == v0.data[g]
        &&& world_extends(&v0, &v1)
        &&& rec_at(v1.data[f].recs, rc.pos) == Some(rc) && rec_at(v0.data[f].recs, rc.pos) is None
    })
{
    let v0 = wview(w, f, i); let v1 = wview(w, f, i + 1); let rc = w.data[f].recs[i];
    lemma_wview_wf(w, f, i);
    lemma_wview_wf(w, f, i + 1);
    assert(v1.data.dom() =~= v0.data.dom());
    assert(w.data[f].recs.take(i + 1) =~= w.data[f].recs.take(i).push(rc));
    assert(data_wf(w.data[f]));
    lemma_rec_at_index(w.data[f].recs, w.data[f].size as int, i);
    lemma_rec_at_bound(w.data[f].recs, w.data[f].size as int, rc.pos);
    lemma_append_extends(&v0, &v1, f, rc);
}
spec fn bump_stat(s: LogStatistics, dl: nat, dd: nat, db: nat) -> LogStatistics {
    LogStatistics { live_keys: (s.live_keys + dl) as u64, dead_keys: (s.dead_keys + dd) as u64, dead_bytes: (s.dead_bytes + db) as u64 }
}
spec fn overwrite_stat(s: LogStatistics, nbytes: u64) -> LogStatistics {
    LogStatistics { live_keys: (s.live_keys - 1) as u64, dead_keys: (s.dead_keys + 1) as u64, dead_bytes: (s.dead_bytes + nbytes) as u64 }
}
/// start-up reads value record i of file f: add_live on f, bind the key, overwrite on the entry it had
proof fn lemma_scan_value(w: &World, f: u64, i: int, kd: Map<Bytes, KeyDirEntry>, st: Map<u64, LogStatistics>, exact: bool)
    requires world_wf(w), w.data.contains_key(f), 0 <= i < w.data[f].recs.len(), w.data[f].recs[i].val is Some,
             index_ok(kd, &wview(w, f, i)),
             stats_rel(st, kd, &wview(w, f, i), 0, 0, 0, 0, false),
             exact ==> stats_rel(st, kd, &wview(w, f, i), 0, 0, 0, 0, true),
    ensures ({
        let rc = w.data[f].recs[i];
        let e = KeyDirEntry { fileid: f, len: rc.len, pos: rc.pos, tstamp: rc.tstamp };
        let st1 = st.insert(f, bump_stat(stat_of(st, f), 1, 0, 0));
        let st2 = if kd.contains_key(rc.key) { st1.insert(kd[rc.key].fileid, overwrite_stat(stat_of(st1, kd[rc.key].fileid), kd[rc.key].len)) } else { st1 };
        let kd2 = kd.insert(rc.key, e);
        &&& stat_of(st, f).live_keys < 0x1_0000_0000_0000
        &&& kd.contains_key(rc.key) ==> stat_of(st1, kd[rc.key].fileid).live_keys >= 1 && stat_of(st1, kd[rc.key].fileid).dead_keys < 0x2_0000_0000_0000
                && stat_of(st1, kd[rc.key].fileid).dead_bytes + kd[rc.key].len < 0x8000_0000_0000_0000
        &&& kd2 == apply_l(kd, lrec_of_rec(f, rc))
        &&& index_ok(kd2, &wview(w, f, i + 1))
        &&& stats_rel(st2, kd2, &wview(w, f, i + 1), 0, 0, 0, 0, false)
        &&& exact ==> stats_rel(st2, kd2, &wview(w, f, i + 1), 0, 0, 0, 0, true)
    })
{
    let v0 = wview(w, f, i); let v1 = wview(w, f, i + 1); let rc = w.data[f].recs[i];
    let e = KeyDirEntry { fileid: f, len: rc.len, pos: rc.pos, tstamp: rc.tstamp };
    let st1 = st.insert(f, bump_stat(stat_of(st, f), 1, 0, 0));
    let st2 = if kd.contains_key(rc.key) { st1.insert(kd[rc.key].fileid, overwrite_stat(stat_of(st1, kd[rc.key].fileid), kd[rc.key].len)) } else { st1 };
    let kd2 = kd.insert(rc.key, e);
    lemma_wview_step(w, f, i);
    lemma_index_mono(&v0, &v1, kd);
    lemma_stats_append(&v0, &v1, st, kd, f, rc, false);
    lemma_stats_room(&v1, st, kd, f, 0, 1, rc.len as nat);
    lemma_stats_bump(&v1, st, st1, kd, f, 0, 1, rc.len as nat, 1, 0, 0, false);
    assert(!is_live(kd, f, rc)) by { if is_live(kd, f, rc) { assert(loc_ok(&v0, rc.key, kd[rc.key])); } }
    if kd.contains_key(rc.key) { lemma_stats_overwrite_room(&v1, st1, kd, rc.key, f, 1, 1, rc.len as nat); }
    assert(v1.data[f].recs.last() == rc);
    lemma_stats_publish(&v1, st1, st2, kd, f, rc, e, false);
    if exact {
        lemma_stats_append(&v0, &v1, st, kd, f, rc, true);
        lemma_stats_bump(&v1, st, st1, kd, f, 0, 1, rc.len as nat, 1, 0, 0, true);
        lemma_stats_publish(&v1, st1, st2, kd, f, rc, e, true);
    }
    assert(index_ok(kd2, &v1)) by {
        assert forall |k: Bytes| kd2.contains_key(k) implies loc_ok(&v1, k, #[trigger] kd2[k]) by {
            if k != rc.key { assert(kd.contains_key(k)); assert(loc_ok(&v1, k, kd[k])); }
        }
    }
}
/// start-up reads tombstone record i of file f: add_dead on f, unbind the key, overwrite on the entry it had
proof fn lemma_scan_tombstone(w: &World, f: u64, i: int, kd: Map<Bytes, KeyDirEntry>, st: Map<u64, LogStatistics>, exact: bool)
    requires world_wf(w), w.data.contains_key(f), 0 <= i < w.data[f].recs.len(), w.data[f].recs[i].val is None,
             index_ok(kd, &wview(w, f, i)),
             stats_rel(st, kd, &wview(w, f, i), 0, 0, 0, 0, false),
             exact ==> stats_rel(st, kd, &wview(w, f, i), 0, 0, 0, 0, true),
    ensures ({
        let rc = w.data[f].recs[i];
        let st1 = st.insert(f, bump_stat(stat_of(st, f), 0, 1, rc.len as nat));
        let st2 = if kd.contains_key(rc.key) { st1.insert(kd[rc.key].fileid, overwrite_stat(stat_of(st1, kd[rc.key].fileid), kd[rc.key].len)) } else { st1 };
        let kd2 = kd.remove(rc.key);
        &&& stat_of(st, f).dead_keys < 0x1_0000_0000_0000 && stat_of(st, f).dead_bytes + rc.len < 0x8000_0000_0000_0000
        &&& kd.contains_key(rc.key) ==> stat_of(st1, kd[rc.key].fileid).live_keys >= 1 && stat_of(st1, kd[rc.key].fileid).dead_keys < 0x2_0000_0000_0000
                && stat_of(st1, kd[rc.key].fileid).dead_bytes + kd[rc.key].len < 0x8000_0000_0000_0000
        &&& kd2 == apply_l(kd, lrec_of_rec(f, rc))
        &&& index_ok(kd2, &wview(w, f, i + 1))
        &&& stats_rel(st2, kd2, &wview(w, f, i + 1), 0, 0, 0, 0, false)
        &&& exact ==> stats_rel(st2, kd2, &wview(w, f, i + 1), 0, 0, 0, 0, true)
    })
{
    let v0 = wview(w, f, i); let v1 = wview(w, f, i + 1); let rc = w.data[f].recs[i];
    let st1 = st.insert(f, bump_stat(stat_of(st, f), 0, 1, rc.len as nat));
    let st2 = if kd.contains_key(rc.key) { st1.insert(kd[rc.key].fileid, overwrite_stat(stat_of(st1, kd[rc.key].fileid), kd[rc.key].len)) } else { st1 };
    let kd2 = kd.remove(rc.key);
    lemma_wview_step(w, f, i);
    lemma_index_mono(&v0, &v1, kd);
    lemma_stats_append(&v0, &v1, st, kd, f, rc, false);
    lemma_stats_room(&v1, st, kd, f, 0, 1, rc.len as nat);
    lemma_stats_bump(&v1, st, st1, kd, f, 0, 1, rc.len as nat, 0, 1, rc.len as nat, false);
    lemma_stats_pf_irrelevant(st1, kd, &v1, f, 0, false);
    if kd.contains_key(rc.key) { lemma_stats_overwrite_room(&v1, st1, kd, rc.key, 0, 0, 0, 0); }
    lemma_stats_unpublish(&v1, st1, st2, kd, rc.key, false);
    if exact {
        lemma_stats_append(&v0, &v1, st, kd, f, rc, true);
        lemma_stats_bump(&v1, st, st1, kd, f, 0, 1, rc.len as nat, 0, 1, rc.len as nat, true);
        lemma_stats_pf_irrelevant(st1, kd, &v1, f, 0, true);
        lemma_stats_unpublish(&v1, st1, st2, kd, rc.key, true);
    }
    assert(index_ok(kd2, &v1)) by {
        assert forall |k: Bytes| kd2.contains_key(k) implies loc_ok(&v1, k, #[trigger] kd2[k]) by {
            assert(kd.contains_key(k)); assert(loc_ok(&v1, k, kd[k]));
        }
    }
}

/// before the first file: nothing read, nothing indexed, nothing counted
proof fn lemma_wview_first(w: &World, f0: u64, exact: bool)
    requires world_wf(w), w.data.contains_key(f0), forall |g: u64| #[trigger] w.data.contains_key(g) ==> g >= f0
    ensures index_ok(Map::<Bytes, KeyDirEntry>::empty(), &wview(w, f0, 0)),
            stats_rel(Map::<u64, LogStatistics>::empty(), Map::<Bytes, KeyDirEntry>::empty(), &wview(w, f0, 0), 0, 0, 0, 0, exact)
{
    reveal(stats_rel);
    let v = wview(w, f0, 0);
    let kd = Map::<Bytes, KeyDirEntry>::empty();
    assert forall |g: u64| #[trigger] v.data.contains_key(g) implies stat_rel(stat_of(Map::<u64, LogStatistics>::empty(), g), kd, g, v.data[g].recs, 0, 0, 0, exact) by {
        assert(g == f0);
        assert(v.data[g].recs =~= Seq::<Rec>::empty());
    }
}
/// from the end of file f1 to the start of the next data file f2
proof fn lemma_wview_next_file(w: &World, f1: u64, f2: u64, kd: Map<Bytes, KeyDirEntry>, st: Map<u64, LogStatistics>, exact: bool)
    requires world_wf(w), w.data.contains_key(f1), w.data.contains_key(f2), f1 < f2,
             forall |g: u64| f1 < g < f2 ==> !w.data.contains_key(g),
             index_ok(kd, &wview(w, f1, w.data[f1].recs.len() as int)),
             stats_rel(st, kd, &wview(w, f1, w.data[f1].recs.len() as int), 0, 0, 0, 0, exact),
    ensures index_ok(kd, &wview(w, f2, 0)), stats_rel(st, kd, &wview(w, f2, 0), 0, 0, 0, 0, exact)
{
    let v1 = wview(w, f1, w.data[f1].recs.len() as int);
    let v2 = wview(w, f2, 0);
    assert(data_wf(w.data[f2]));
    assert(w.data[f2].recs.take(0) =~= Seq::<Rec>::empty());
    if w.data[f2].recs.len() > 0 {
        lemma_recs_wf_take(w.data[f2].recs, w.data[f2].size as int, 0);
    }
    assert(v2.data[f2] == empty_data());
    assert(!v1.data.contains_key(f2));
    assert(v2.data =~= v1.data.insert(f2, empty_data())) by {
        assert forall |g: u64| v2.data.contains_key(g) == v1.data.insert(f2, empty_data()).contains_key(g) by { }
        assert forall |g: u64| v2.data.contains_key(g) implies #[trigger] v2.data[g] == v1.data.insert(f2, empty_data())[g] by {
            if g == f1 { assert(w.data[f1].recs.take(w.data[f1].recs.len() as int) =~= w.data[f1].recs); }
        }
    }
    lemma_stats_new_file(&v1, &v2, st, kd, f2, 0, 0, 0, 0, exact);
    assert(world_extends(&v1, &v2));
    lemma_index_mono(&v1, &v2, kd);
}
/// after the last file everything has been read
proof fn lemma_wview_full(w: &World, f: u64, kd: Map<Bytes, KeyDirEntry>, st: Map<u64, LogStatistics>, exact: bool)
    requires world_wf(w), w.data.contains_key(f), forall |g: u64| #[trigger] w.data.contains_key(g) ==> g <= f,
             index_ok(kd, &wview(w, f, w.data[f].recs.len() as int)),
             stats_rel(st, kd, &wview(w, f, w.data[f].recs.len() as int), 0, 0, 0, 0, exact),
    ensures index_ok(kd, w), stats_rel(st, kd, w, 0, 0, 0, 0, exact)
{
    reveal(stats_rel);
    let v = wview(w, f, w.data[f].recs.len() as int);
    assert forall |g: u64| #[trigger] w.data.contains_key(g) implies v.data.contains_key(g) && v.data[g].recs == w.data[g].recs by {
        assert(w.data[g].recs.take(w.data[g].recs.len() as int) =~= w.data[g].recs);
    }
    assert forall |k: Bytes| kd.contains_key(k) implies loc_ok(w, k, #[trigger] kd[k]) by {
        assert(loc_ok(&v, k, kd[k]));
        assert(v.data.contains_key(kd[k].fileid));
        assert(w.data.contains_key(kd[k].fileid));
    }
    assert forall |g: u64| #[trigger] st.contains_key(g) implies w.data.contains_key(g) by { assert(v.data.contains_key(g)); }
}
proof fn lemma_files_log_push(w: &World, ids: Seq<u64>, j: int)
    requires 0 <= j < ids.len()
    ensures files_log(w, ids.take(j + 1)) == files_log(w, ids.take(j)) + file_log(w, ids[j])
{
    assert(ids.take(j + 1).drop_last() =~= ids.take(j));
    assert(ids.take(j + 1).last() == ids[j]);
}

// ---- how World operations transform the log -----------------------------------------------------------
/// the log depends only on the records
proof fn lemma_log_same_records(w1: &World, w2: &World)
    requires same_records(w1, w2)
    ensures full_log(w2) == full_log(w1)
{
    assert forall |id: u64| id < ID_BOUND implies #[trigger] file_log(w1, id) == file_log(w2, id) by {
        if w1.data.contains_key(id) { assert(w2.data.dom().contains(id)); } else { assert(!w2.data.dom().contains(id)); }
    }
    lemma_log_frame(w1, w2, ID_BOUND);
}
/// appending a record to the data file with the largest id (which has no hint file) appends to the log
proof fn lemma_log_push_top(w1: &World, w2: &World, a: u64, rc: Rec)
    requires world_wf(w1), w1.data.contains_key(a), !w1.hint.contains_key(a),
             forall |g: u64| #[trigger] w1.data.contains_key(g) ==> g <= a,
             w2.data.dom() == w1.data.dom(), w2.hint == w1.hint,
             w2.data[a].recs == w1.data[a].recs.push(rc),
             forall |g: u64| g != a && w1.data.contains_key(g) ==> #[trigger] w2.data[g] == w1.data[g],
    ensures full_log(w2) == full_log(w1).push(lrec_of_rec(a, rc))
{
    assert(w1.ever.contains(a));
    assert forall |id: u64| id < a implies #[trigger] file_log(w1, id) == file_log(w2, id) by {
        if w1.data.contains_key(id) { assert(w2.data.dom().contains(id)); } else { assert(!w2.data.dom().contains(id)); }
    }
    lemma_log_frame(w1, w2, a as nat);
    assert forall |id: u64| a + 1 <= id < ID_BOUND implies !w1.data.contains_key(id) by { }
    assert forall |id: u64| a + 1 <= id < ID_BOUND implies !w2.data.contains_key(id) by { assert(!w1.data.dom().contains(id)); }
    lemma_log_gap(w1, (a + 1) as nat, ID_BOUND);
    lemma_log_gap(w2, (a + 1) as nat, ID_BOUND);
    assert(w2.data.dom().contains(a));
    lemma_data_log_push(a, w1.data[a].recs, rc);
    assert(log_upto(w1, (a + 1) as nat) == log_upto(w1, a as nat) + file_log(w1, a));
    assert(log_upto(w2, (a + 1) as nat) == log_upto(w2, a as nat) + file_log(w2, a));
    assert(log_upto(w1, a as nat) + file_log(w1, a).push(lrec_of_rec(a, rc)) =~= (log_upto(w1, a as nat) + file_log(w1, a)).push(lrec_of_rec(a, rc)));
}
/// creating an empty data file does not change the log
proof fn lemma_log_new_file(w1: &World, w2: &World, id: u64)
    requires !w1.data.contains_key(id), w2.data == w1.data.insert(id, empty_data()), w2.hint == w1.hint, !w1.hint.contains_key(id)
    ensures full_log(w2) == full_log(w1)
{
    assert forall |g: u64| g < ID_BOUND implies #[trigger] file_log(w1, g) == file_log(w2, g) by {
        if g == id { assert(data_log(id, Seq::<Rec>::empty()) =~= Seq::<LRec>::empty()); }
    }
    lemma_log_frame(w1, w2, ID_BOUND);
}
/// what reads after a restart: the map the recovered key directory implements
/// (broadcast form of lemma_log_new_file, for exits through `?` where no ghost statement can be placed)
broadcast proof fn lemma_b_log_new_file(w1: &World, w2: &World, id: u64)
    requires !w1.data.contains_key(id), w2.data == #[trigger] w1.data.insert(id, empty_data()), w2.hint == w1.hint, !w1.hint.contains_key(id)
    ensures #[trigger] full_log(w2) == full_log(w1)
{
    lemma_log_new_file(w1, w2, id);
}
spec fn recover_model(w: &World) -> Map<Bytes, Bytes> { model(spec_recover(w), w) }

/// (broadcast) the log depends only on the records
broadcast proof fn lemma_b_log_same(w1: &World, w2: &World)
    requires #[trigger] same_records(w1, w2)
    ensures full_log(w2) == full_log(w1)
{
    lemma_log_same_records(w1, w2);
}

spec fn apply_model(m: Map<Bytes, Bytes>, k: Bytes, v: Option<Bytes>) -> Map<Bytes, Bytes> {
    if v is Some { m.insert(k, v->0) } else { m.remove(k) }
}
/// after a record has been appended to the active file, a restart would see it applied
proof fn lemma_recover_after_append(w0: &World, w1: &World, kd: Map<Bytes, KeyDirEntry>, a: u64, rc: Rec)
    requires world_wf(w0), world_wf(w1), index_ok(kd, w0), world_extends(w0, w1),
             full_log(w1) == full_log(w0).push(lrec_of_rec(a, rc)),
             w1.data.contains_key(a), rec_at(w1.data[a].recs, rc.pos) == Some(rc),
    ensures
        recover_from(Map::empty(), full_log(w1)) == apply_l(recover_from(Map::empty(), full_log(w0)), lrec_of_rec(a, rc)),
        spec_recover(w0) == kd ==> index_ok(spec_recover(w1), w1) && recover_model(w1) == apply_model(model(kd, w0), rc.key, rc.val),
{
    lemma_recover_push(Map::empty(), full_log(w0), lrec_of_rec(a, rc));
    if spec_recover(w0) == kd {
        let kd2 = spec_recover(w1);
        lemma_index_mono(w0, w1, kd);
        assert forall |k: Bytes| kd2.contains_key(k) implies loc_ok(w1, k, #[trigger] kd2[k]) by {
            if k != rc.key { assert(kd.contains_key(k)); assert(loc_ok(w1, k, kd[k])); }
        }
        assert(recover_model(w1) =~= apply_model(model(kd, w0), rc.key, rc.val)) by {
            assert forall |k: Bytes| kd2.contains_key(k) implies #[trigger] model(kd2, w1)[k] == apply_model(model(kd, w0), rc.key, rc.val)[k] by {
                if k != rc.key { assert(kd.contains_key(k)); assert(model(kd, w1)[k] == model(kd, w0)[k]); }
            }
        }
    }
}
/// (broadcast) what a restart reads depends only on the records
broadcast proof fn lemma_b_recover_model_same(w1: &World, w2: &World)
    requires #[trigger] same_records(w1, w2), world_wf(w1), index_ok(spec_recover(w1), w1)
    ensures #[trigger] recover_model(w2) == recover_model(w1), index_ok(spec_recover(w2), w2)
{
    lemma_log_same_records(w1, w2);
    lemma_same_records(w1, w2, spec_recover(w1));
}
