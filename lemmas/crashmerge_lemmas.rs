// ------------------------------ C03 / C20 for merge: what a restart would rebuild, step by step ------------------------------
// Every World call of Writer::merge is one of five kinds of step; for each there is a lemma saying what start-up (spec_recover)
// would rebuild from the directory after the step, given what it would have rebuilt before.

/// (1) a step that leaves every file's start-up view alone: flush of copied data into a file that has a hint file, fsync,
/// creation of empty files
proof fn lemma_recover_same_logs(w1: &World, w2: &World)
    requires forall |id: u64| id < ID_BOUND ==> #[trigger] file_log(w1, id) == file_log(w2, id)
    ensures spec_recover(w2) == spec_recover(w1), full_log(w2) == full_log(w1)
{
    lemma_log_frame(w1, w2, ID_BOUND);
}
/// the two creations of a merge output (an empty data file, then its empty hint file) add nothing to the log
proof fn lemma_recover_new_output(w1: &World, w2: &World, id: u64)
    requires !w1.data.contains_key(id), !w1.hint.contains_key(id),
             w2.data == w1.data.insert(id, empty_data()), w2.hint == w1.hint || w2.hint == w1.hint.insert(id, empty_hint()),
    ensures spec_recover(w2) == spec_recover(w1)
{
    assert forall |g: u64| g < ID_BOUND implies #[trigger] file_log(w1, g) == file_log(w2, g) by {
        if g == id {
            assert(data_log(id, Seq::<Rec>::empty()) =~= Seq::<LRec>::empty());
            assert(hint_log(id, Seq::<HRec>::empty()) =~= Seq::<LRec>::empty());
        }
    }
    lemma_recover_same_logs(w1, w2);
}
proof fn lemma_recover_new_hint(w1: &World, w2: &World, id: u64)
    requires w1.data.contains_key(id), w1.data[id].recs.len() == 0, !w1.hint.contains_key(id),
             w2.data == w1.data, w2.hint == w1.hint.insert(id, empty_hint()),
    ensures spec_recover(w2) == spec_recover(w1)
{
    assert forall |g: u64| g < ID_BOUND implies #[trigger] file_log(w1, g) == file_log(w2, g) by {
        if g == id {
            assert(data_log(id, w1.data[id].recs) =~= Seq::<LRec>::empty());
            assert(hint_log(id, Seq::<HRec>::empty()) =~= Seq::<LRec>::empty());
        }
    }
    lemma_recover_same_logs(w1, w2);
}

/// (2) appending one record to the hint file of the file with the largest id appends one record to the log: start-up then
/// binds that key to the copy
proof fn lemma_log_hint_push_top(w1: &World, w2: &World, a: u64, h: HRec)
    requires
        world_wf(w1), w1.data.contains_key(a), w1.hint.contains_key(a),
        forall |g: u64| #[trigger] w1.data.contains_key(g) ==> g <= a,
        w2.data.dom() == w1.data.dom(), w2.hint.dom() == w1.hint.dom(),
        w2.hint[a].recs == w1.hint[a].recs.push(h),
        forall |g: u64| g != a && w1.hint.contains_key(g) ==> #[trigger] w2.hint[g] == w1.hint[g],
        forall |g: u64| g != a && w1.data.contains_key(g) ==> (#[trigger] w2.data[g]).recs == w1.data[g].recs,
    ensures
        full_log(w2) == full_log(w1).push(lrec_of_hrec(a, h)),
        spec_recover(w2) == apply_l(spec_recover(w1), lrec_of_hrec(a, h)),
{
    assert(w1.ever.contains(a));
    assert forall |id: u64| id < a implies #[trigger] file_log(w1, id) == file_log(w2, id) by {
        if w1.data.contains_key(id) { assert(w2.data.dom().contains(id)); } else { assert(!w2.data.dom().contains(id)); }
        if w1.hint.contains_key(id) { assert(w2.hint.dom().contains(id)); } else { assert(!w2.hint.dom().contains(id)); }
    }
    lemma_log_frame(w1, w2, a as nat);
    assert forall |id: u64| a + 1 <= id < ID_BOUND implies !w1.data.contains_key(id) by { }
    assert forall |id: u64| a + 1 <= id < ID_BOUND implies !w2.data.contains_key(id) by { assert(!w1.data.dom().contains(id)); }
    lemma_log_gap(w1, (a + 1) as nat, ID_BOUND);
    lemma_log_gap(w2, (a + 1) as nat, ID_BOUND);
    assert(w2.data.dom().contains(a));
    assert(w2.hint.dom().contains(a));
    assert(hint_log(a, w1.hint[a].recs.push(h)) =~= hint_log(a, w1.hint[a].recs).push(lrec_of_hrec(a, h)));
    assert(log_upto(w1, (a + 1) as nat) == log_upto(w1, a as nat) + file_log(w1, a));
    assert(log_upto(w2, (a + 1) as nat) == log_upto(w2, a as nat) + file_log(w2, a));
    assert(log_upto(w1, a as nat) + file_log(w1, a).push(lrec_of_hrec(a, h)) =~= (log_upto(w1, a as nat) + file_log(w1, a)).push(lrec_of_hrec(a, h)));
    lemma_recover_push(Map::empty(), full_log(w1), lrec_of_hrec(a, h));
}

/// (3) removing the hint file of a file whose hint file lists exactly its records changes nothing: start-up scans the data
/// file instead and reads the same records
proof fn lemma_remove_hint_recover(w1: &World, w2: &World, id: u64)
    requires hint_ok(w1, id), w1.hint.contains_key(id), w2.hint == w1.hint.remove(id), w2.data == w1.data
    ensures spec_recover(w2) == spec_recover(w1)
{
    lemma_hint_log_is_data_log(w1, id);
    assert forall |g: u64| g < ID_BOUND implies #[trigger] file_log(w1, g) == file_log(w2, g) by { }
    lemma_recover_same_logs(w1, w2);
}

/// (4) removing a whole data file that no key points into -- GIVEN that no tombstone in it is the only thing that shadows an
/// older value elsewhere (the per-step form of the open finding D9)
proof fn lemma_remove_data_recover(w1: &World, w2: &World, id: u64, kd: Map<Bytes, KeyDirEntry>)
    requires
        spec_recover(w1) == kd, w2.data == w1.data.remove(id), w2.hint == w1.hint, !w1.hint.contains_key(id),
        forall |k: Bytes| #[trigger] kd.contains_key(k) ==> kd[k].fileid != id,
        tombstone_safe(full_log(w1), set![id]),
    ensures spec_recover(w2) == kd
{
    let sel = set![id];
    assert forall |g: u64| g < ID_BOUND implies #[trigger] file_log(w2, g) == (if sel.contains(g) { Seq::<LRec>::empty() } else { file_log(w1, g) }) by { }
    lemma_keep_upto(w1, w2, sel, ID_BOUND);
    let logp = full_log(w1);
    lemma_merge_recover_log(logp, sel, Seq::<LRec>::empty(), kd, kd);
    assert(keep_log(logp, sel) + Seq::<LRec>::empty() =~= keep_log(logp, sel));
}
/// D9 (OPEN KNOWN FINDING), per removed file: NOT provable -- see lemma_tombstone_safe
proof fn lemma_tombstone_safe_step(w: &World, id: u64)
    ensures tombstone_safe(full_log(w), set![id])    //@[C05.tombstone_safe]
{
}

/// C03 / C20: called (ghost) after every World call of Writer::merge: a restart from exactly this directory yields the map the
/// store had when the merge began (a merge changes no value), provided the merge began in a recoverable state with
/// consistent hint files
/// no hint file without its data file: a stale hint file would be adopted by a later data file of the same id and hide its entries
spec fn hint_has_data(w: &World) -> bool { forall |i: u64| #[trigger] w.hint.contains_key(i) ==> w.data.contains_key(i) }
proof fn crash_point_merge(w: &World, m0: Map<Bytes, Bytes>, premise: bool)
    requires premise ==> recover_model(w) == m0,   //@[C03.merge.crash_point]
             hint_has_data(w),                     //@[C03.merge.crash_state_wf]
{}
proof fn lemma_del_state_hints(st1: Map<u64, LogStatistics>, w1: &World, sel: Set<u64>, ids: Seq<u64>, st: Map<u64, LogStatistics>, w: &World, jj: int)
    requires del_state(st1, w1, sel, ids, st, w, jj)
    ensures hint_has_data(w)
{
    reveal(del_state);
}

/// fsync of the two files of the current output changes no record
proof fn lemma_recover_synced(w1: &World, w2: &World, hi: u64)
    requires
        w2.data.dom() == w1.data.dom(), w2.hint.dom() == w1.hint.dom(),
        forall |f: u64| f != hi && #[trigger] w1.data.contains_key(f) ==> w2.data[f] == w1.data[f],
        forall |f: u64| f != hi && #[trigger] w1.hint.contains_key(f) ==> w2.hint[f] == w1.hint[f],
        w1.data.contains_key(hi) ==> w2.data[hi].recs == w1.data[hi].recs,
        w1.hint.contains_key(hi) ==> w2.hint[hi].recs == w1.hint[hi].recs,
    ensures spec_recover(w2) == spec_recover(w1)
{
    assert forall |id: u64| id < ID_BOUND implies #[trigger] file_log(w1, id) == file_log(w2, id) by {
        if w1.data.contains_key(id) { assert(w2.data.dom().contains(id)); } else { assert(!w2.data.dom().contains(id)); }
        if w1.hint.contains_key(id) { assert(w2.hint.dom().contains(id)); } else { assert(!w2.hint.dom().contains(id)); }
    }
    lemma_recover_same_logs(w1, w2);
}
