// ------------------------------ TLOG made explicit: the two contract levels of log.rs agree ------------------------------
// Unit `log` verifies the bodies of log.rs against BYTE-level contracts (what is handed to the writer, which bytes are decoded);
// unit `store` assumes RECORD-level contracts (the World's `recs`).  This file defines the abstraction between the two -- the
// record list of a file is what decoding its bytes from the front yields -- and proves, as pure lemmas, that each byte-level
// postcondition implies the corresponding record-level postcondition.  What remains by reading: that the hypotheses / conclusions
// below are the clauses of contracts/log_local.spec / contracts/log.spec.
pub struct R { pub e: E, pub pos: int, pub len: int }
pub open spec fn ok_len(b: Seq<u8>, pos: int, n: int) -> bool { 0 < n <= b.len() - pos && dec(b.subrange(pos, pos + n)) is Some }
/// does a complete encoding start at offset pos?
pub open spec fn rec_len_at(b: Seq<u8>, pos: int) -> Option<int> {
    if exists |n: int| #[trigger] ok_len(b, pos, n) { Some(choose |n: int| #[trigger] ok_len(b, pos, n)) } else { None }
}
/// THE ABSTRACTION: the records of a file = decode from the front until no complete encoding follows (a torn tail is ignored)
pub open spec fn recs_from(b: Seq<u8>, pos: int) -> Seq<R>
    decreases b.len() - pos
{
    if pos < 0 || pos >= b.len() { Seq::empty() } else {
        match rec_len_at(b, pos) {
            Some(n) => seq![R { e: dec(b.subrange(pos, pos + n))->0, pos: pos, len: n }] + recs_from(b, pos + n),
            None => Seq::empty(),
        }
    }
}
/// the file ends exactly at a record boundary (no torn tail)
pub open spec fn complete_from(b: Seq<u8>, pos: int) -> bool
    decreases b.len() - pos
{
    if pos < 0 || pos > b.len() { false } else if pos == b.len() { true } else {
        match rec_len_at(b, pos) { Some(n) => complete_from(b, pos + n), None => false }
    }
}

/// at most one length decodes at a given offset (self-delimiting)
pub proof fn lemma_unique_len(b: Seq<u8>, pos: int, n1: int, n2: int)
    requires 0 <= pos, 0 < n1 <= b.len() - pos, 0 < n2 <= b.len() - pos, dec(b.subrange(pos, pos + n1)) is Some, dec(b.subrange(pos, pos + n2)) is Some
    ensures n1 == n2
{
    let e1 = dec(b.subrange(pos, pos + n1))->0;
    let e2 = dec(b.subrange(pos, pos + n2))->0;
    axiom_codec(e1, b.subrange(pos, pos + n1), e2);
    axiom_codec(e2, b.subrange(pos, pos + n2), e1);
    if n1 <= n2 {
        assert(b.subrange(pos, pos + n2).take(n1) =~= b.subrange(pos, pos + n1));
    } else {
        assert(b.subrange(pos, pos + n1).take(n2) =~= b.subrange(pos, pos + n2));
    }
}
/// appending bytes behind a complete file does not change how its records decode
pub proof fn lemma_parse_prefix(b: Seq<u8>, x: Seq<u8>, pos: int)
    requires complete_from(b, pos), 0 <= pos <= b.len()
    ensures recs_from(b + x, pos) == recs_from(b, pos) + recs_from(b + x, b.len() as int),
            complete_from(b + x, pos) == complete_from(b + x, b.len() as int),
    decreases b.len() - pos
{
    let bx = b + x;
    if pos == b.len() {
        assert(recs_from(b, pos) =~= Seq::<R>::empty());
        assert(Seq::<R>::empty() + recs_from(bx, pos) =~= recs_from(bx, pos));
    } else {
        let n = rec_len_at(b, pos)->0;
        assert(ok_len(b, pos, n));
        assert(bx.subrange(pos, pos + n) =~= b.subrange(pos, pos + n));
        // in b + x the same length is found
        assert(ok_len(bx, pos, n));
        assert(rec_len_at(bx, pos) is Some);
        let m = rec_len_at(bx, pos)->0;
        assert(ok_len(bx, pos, m));
        lemma_unique_len(bx, pos, n, m);
        lemma_parse_prefix(b, x, pos + n);
        assert(seq![R { e: dec(b.subrange(pos, pos + n))->0, pos: pos, len: n }] + (recs_from(b, pos + n) + recs_from(bx, b.len() as int))
            =~= (seq![R { e: dec(b.subrange(pos, pos + n))->0, pos: pos, len: n }] + recs_from(b, pos + n)) + recs_from(bx, b.len() as int));
    }
}

/// LogWriter::append:  byte level  `handed' == handed + enc(e), ix.pos == |handed|, ix.len == |enc(e)|`  (C01.append.index_exact,
/// with everything flushed: C04.append.flushed_before_ack)   ==>   record level  `recs' == recs.push(Rec { e, pos: ix.pos, len:
/// ix.len })`, the new record sits at the old end of the file, and the file is again complete  (C14.append.at_end)
pub proof fn refine_append(b: Seq<u8>, e: E)    //@[C01.refine.append]
    requires complete_from(b, 0)
    ensures
        recs_from(b + enc(e), 0) == recs_from(b, 0).push(R { e: e, pos: b.len() as int, len: enc(e).len() as int }),
        complete_from(b + enc(e), 0),
{
    let x = enc(e);
    let bx = b + x;
    axiom_codec(e, x, e);
    lemma_parse_prefix(b, x, 0);
    let p = b.len() as int;
    assert(bx.subrange(p, p + x.len()) =~= x);
    assert(ok_len(bx, p, x.len() as int));
    assert(rec_len_at(bx, p) is Some);
    let m = rec_len_at(bx, p)->0;
    assert(ok_len(bx, p, m));
    lemma_unique_len(bx, p, x.len() as int, m);
    assert(recs_from(bx, p + m) =~= Seq::<R>::empty());
    assert(recs_from(bx, p) =~= seq![R { e: e, pos: p, len: m }]);
    assert(recs_from(b, 0) + seq![R { e: e, pos: p, len: m }] =~= recs_from(b, 0).push(R { e: e, pos: p, len: m }));
    assert(complete_from(bx, p + m));
    assert(complete_from(bx, p));
}

/// a record of the list decodes from exactly its (pos, len) slice
pub proof fn lemma_rec_slice(b: Seq<u8>, pos: int, i: int)
    requires 0 <= pos, 0 <= i < recs_from(b, pos).len()
    ensures ({ let r = recs_from(b, pos)[i]; pos <= r.pos && 0 < r.len && r.pos + r.len <= b.len() && dec(b.subrange(r.pos, r.pos + r.len)) == Some(r.e) })
    decreases b.len() - pos
{
    if pos < b.len() && rec_len_at(b, pos) is Some {
        let n = rec_len_at(b, pos)->0;
        assert(ok_len(b, pos, n));
        if i == 0 {
        } else {
            lemma_rec_slice(b, pos + n, i - 1);
            assert(recs_from(b, pos)[i] == recs_from(b, pos + n)[i - 1]);
        }
    }
}
/// LogReader::at / LogDir::read:  byte level  `dec(content[pos .. pos+len]) == Some(t)`  (C01.reader.at_exact)   ==>   record level
/// `t is the entry of the record that the list has at (pos, len)`  (C01.read.exact)
pub proof fn refine_read(b: Seq<u8>, i: int, t: E)    //@[C01.refine.read]
    requires 0 <= i < recs_from(b, 0).len(), dec(b.subrange(recs_from(b, 0)[i].pos, recs_from(b, 0)[i].pos + recs_from(b, 0)[i].len)) == Some(t)
    ensures t == recs_from(b, 0)[i].e
{
    lemma_rec_slice(b, 0, i);
}

/// LogIterator::next at a record boundary:  byte level  `dec(rest.take(len)) == Some(t), rest' == rest.skip(len)`  (C02.iter.index_exact)
/// ==>  record level  `(t, pos, len)` is the next record of the list and the iterator stands at the following boundary
/// (C02.iter.in_order);  `Ok(None)` only where no complete encoding follows (C02.iter.none_only_at_eof)  ==>  the list ends there
pub proof fn refine_next(b: Seq<u8>, pos: int, len: int, t: E)    //@[C02.refine.next]
    requires 0 <= pos < b.len(), 0 < len <= b.len() - pos, dec(b.skip(pos).take(len)) == Some(t)
    ensures recs_from(b, pos) == seq![R { e: t, pos: pos, len: len }] + recs_from(b, pos + len)
{
    assert(b.skip(pos).take(len) =~= b.subrange(pos, pos + len));
    assert(ok_len(b, pos, len));
    assert(rec_len_at(b, pos) is Some);
    assert(ok_len(b, pos, rec_len_at(b, pos)->0));
    lemma_unique_len(b, pos, len, rec_len_at(b, pos)->0);
}
pub proof fn refine_next_none(b: Seq<u8>, pos: int)    //@[C02.refine.next_none]
    requires 0 <= pos <= b.len(), !(exists |n: int| 0 <= n <= b.skip(pos).len() && (#[trigger] dec(b.skip(pos).take(n))) is Some)
    ensures recs_from(b, pos) == Seq::<R>::empty()
{
    if pos < b.len() && rec_len_at(b, pos) is Some {
        let n = rec_len_at(b, pos)->0;
        assert(ok_len(b, pos, n));
        assert(b.skip(pos).take(n) =~= b.subrange(pos, pos + n));
        assert(dec(b.skip(pos).take(n)) is Some);
    }
}

/// LogReader::copy_raw:  byte level  `written' == written + content[pos .. pos+len]`  (C05.reader.copy_exact)   ==>   what arrives in
/// the output is the encoding of that very record, so appending it to a complete output appends an identical record
/// (C05.copy.identical_record)
pub proof fn refine_copy(src: Seq<u8>, i: int, out: Seq<u8>)    //@[C05.refine.copy]
    requires 0 <= i < recs_from(src, 0).len(), complete_from(out, 0)
    ensures ({
        let r = recs_from(src, 0)[i];
        let piece = src.subrange(r.pos, r.pos + r.len);
        recs_from(out + piece, 0) == recs_from(out, 0).push(R { e: r.e, pos: out.len() as int, len: r.len }) && complete_from(out + piece, 0)
    })
{
    lemma_rec_slice(src, 0, i);
    let r = recs_from(src, 0)[i];
    let piece = src.subrange(r.pos, r.pos + r.len);
    axiom_codec(r.e, piece, r.e);
    assert(piece == enc(r.e));
    refine_append(out, r.e);
}
