// ------------------------------ World-level spec functions (verified, not trusted) ------------------------------
/// the record that starts at offset p
pub open spec fn rec_at(recs: Seq<Rec>, p: u64) -> Option<Rec>
    decreases recs.len()
{
    if recs.len() == 0 { None } else if recs.last().pos == p { Some(recs.last()) } else { rec_at(recs.drop_last(), p) }
}
/// offsets are the running sums of the (positive) record lengths and end at `size`
pub open spec fn recs_wf(recs: Seq<Rec>, size: int) -> bool
    decreases recs.len()
{
    if recs.len() == 0 { size == 0 }
    else { recs.last().len > 0 && recs.last().pos + recs.last().len == size && recs_wf(recs.drop_last(), recs.last().pos as int) }
}
pub open spec fn data_wf(g: DataG) -> bool {
    recs_wf(g.recs, g.size as int) && g.size < 0x4000_0000_0000_0000 && g.recs.len() < 0x1_0000_0000_0000 && g.synced <= g.recs.len()
}
/// T13 environment bounds + structural well-formedness of the directory model
pub open spec fn world_wf(w: &World) -> bool {
    &&& forall |i: u64| #[trigger] w.data.contains_key(i) ==> w.ever.contains(i) && data_wf(w.data[i])
    &&& forall |i: u64| #[trigger] w.hint.contains_key(i) ==> w.data.contains_key(i)
    &&& forall |i: u64| #[trigger] w.ever.contains(i) ==> i < 0x4000_0000_0000_0000
}

pub proof fn lemma_rec_at_bound(recs: Seq<Rec>, size: int, p: u64)
    requires recs_wf(recs, size)
    ensures rec_at(recs, p) matches Some(r) ==> r.pos == p && r.len > 0 && p + r.len <= size,
            size >= 0
    decreases recs.len()
{
    if recs.len() > 0 {
        lemma_rec_at_bound(recs.drop_last(), recs.last().pos as int, p);
    }
}
pub proof fn lemma_rec_at_push(recs: Seq<Rec>, r: Rec, p: u64)
    ensures rec_at(recs.push(r), p) == (if r.pos == p { Some(r) } else { rec_at(recs, p) })
{
    assert(recs.push(r).drop_last() =~= recs);
}
pub proof fn lemma_recs_wf_push(recs: Seq<Rec>, size: int, r: Rec)
    requires recs_wf(recs, size), r.pos == size, r.len > 0
    ensures recs_wf(recs.push(r), size + r.len)
{
    assert(recs.push(r).drop_last() =~= recs);
}
/// appending at the end keeps every older lookup
pub proof fn lemma_rec_at_append_keeps(recs: Seq<Rec>, size: int, r: Rec, p: u64)
    requires recs_wf(recs, size), r.pos == size
    ensures rec_at(recs, p) is Some ==> rec_at(recs.push(r), p) == rec_at(recs, p),
            rec_at(recs, r.pos) is None
{
    lemma_rec_at_push(recs, r, p);
    lemma_rec_at_bound(recs, size, p);
    lemma_rec_at_bound(recs, size, r.pos);
}
pub proof fn lemma_rec_at_index(recs: Seq<Rec>, size: int, i: int)
    requires recs_wf(recs, size), 0 <= i < recs.len()
    ensures rec_at(recs, recs[i].pos) == Some(recs[i])
    decreases recs.len()
{
    if i == recs.len() - 1 {
    } else {
        lemma_rec_at_index(recs.drop_last(), recs.last().pos as int, i);
        lemma_rec_at_bound(recs.drop_last(), recs.last().pos as int, recs[i].pos);
        assert(recs.drop_last()[i] == recs[i]);
    }
}

/// the same files with the same records (only fsync marks may differ)
pub open spec fn same_records(w1: &World, w2: &World) -> bool {
    &&& w2.data.dom() == w1.data.dom() && w2.hint == w1.hint && w2.ever == w1.ever
    &&& forall |f: u64| #[trigger] w1.data.contains_key(f) ==> w2.data[f].recs == w1.data[f].recs && w2.data[f].size == w1.data[f].size
            && w2.data[f].synced <= w2.data[f].recs.len()
}
pub open spec fn same_torn(w1: &World, w2: &World) -> bool {
    forall |f: u64| #[trigger] w1.data.contains_key(f) ==> w2.data[f].torn == w1.data[f].torn
}
pub proof fn lemma_same_records_wf(w1: &World, w2: &World)
    requires same_records(w1, w2), world_wf(w1)
    ensures world_wf(w2)
{
    assert forall |i: u64| #[trigger] w2.data.contains_key(i) implies w2.ever.contains(i) && data_wf(w2.data[i]) by {
        assert(w1.data.dom().contains(i));
        assert(w1.data.contains_key(i));
        assert(data_wf(w1.data[i]));
    }
    assert forall |i: u64| #[trigger] w2.hint.contains_key(i) implies w2.data.contains_key(i) by {
        assert(w1.hint.contains_key(i));
        assert(w1.data.contains_key(i));
        assert(w2.data.dom().contains(i));
    }
}

/// C14: the file with the largest id the directory has ever contained still exists (so "max existing id + 1",
/// which is what start-up uses, is above every id ever used)
pub open spec fn top_exists(w: &World) -> bool {
    exists |f: u64| #[trigger] w.data.contains_key(f) && (forall |g: u64| w.ever.contains(g) ==> g <= f)
}
/// called (ghost) after every unlink inside merge
pub proof fn top_checkpoint(w: &World)
    requires top_exists(w),   //@[C14.unlink.top_kept]
{}
