"""C03 on the real code (bounded): kill the store process at EVERY boundary between two file-system calls it issues on
its own files, then reopen the directory in a fresh process and compare with the map model.

A killed process leaves exactly the effects of a prefix of its system calls.  A dry run under strace lists the system
calls (openat / write / pwrite64 / fsync / fdatasync / unlink / unlinkat) that touch files of the store directory; for
each of them the history is run again from an empty directory with `strace -e inject=<call>:signal=SIGKILL:when=<j>`,
which delivers SIGKILL on ENTRY to the j-th invocation of that call (so the call itself does not happen).  The child
prints "ACK i" after operation i has returned; the verifier process then opens the directory and checks that it
opens, that every key reads as after the acknowledged operations with the in-flight one applied or not, and that the
store accepts a write."""
import json
import os
import re
import shutil
import subprocess
import tempfile

HISTORIES = [
    (64, "all", "set a 1; set b 2; set a 3; del b; set c 4; merge; set a 5; del c; merge; set d 6"),
    (0, "all", "set a 1; set a 2; del a; set b 1; merge; set b 2; reopen; set c 3"),
    (1 << 20, "all", "set a 1; set b 2; del a; reopen; set a 3; merge; del b"),
]
# a value larger than the BufWriter's capacity reaches the file in more than one write call: a kill between them cuts the entry
HISTORIES.append((1 << 20, "all", "set a 1; set big %s; set b 2; del a; set big2 %s" % ("x" * 9000, "y" * 20000)))
# a key larger than the BufWriter's capacity: its record -- in the data file and, after a merge, in the HINT file -- reaches the file
# in more than one write call (every record is flushed on its own, so this is the only way a kill leaves a hint file that ends in
# the middle of a record, next to the still existing inputs of the merge)
HISTORIES.append((1 << 20, "all", "set a 1; set %s 2; set b 3; set a 4; merge; set z 1" % ("K" * 9000)))
# histories whose LAST operation appends the last entry of the highest data file: that file is then cut by a few bytes, which is what
# a kill (or power loss) in the middle of the last write leaves; the last operation counts as in flight
TRUNCATIONS = [
    (1 << 20, "all", "set a 1; set b 2; del a; set c 33333"),
    (1 << 20, "all", "set a 1; set b 2; set a 3; del b"),
    (64, "all", "set a 1; set b 2; set c 3; set a 4; set d 55555555"),
]
CUTS = (1, 2, 5, 9, 10, 17)      # every last entry above is at least 18 bytes long
CALLS = "openat,write,pwrite64,fsync,fdatasync,unlink,unlinkat"
_LINE = re.compile(r"^(\d+)\s+(\w+)\((.*)$")


def _points(trace, d):
    """[(syscall name, per-name index on the main thread)] of the calls that touch files under d."""
    import durability
    trace = durability.join_lines(trace)
    main = None
    counts = {}
    fds = set()
    pts = []
    for line in trace.splitlines():
        m = _LINE.match(line)
        if not m:
            continue
        pid, name, rest = m.group(1), m.group(2), m.group(3)
        if main is None:
            main = pid
        if "<unfinished" in line and name not in ("openat",):
            pass
        rel = False
        if name == "openat":
            mm = re.search(r'"([^"]*)"', rest)
            res = re.search(r"= (\d+)\s*$", line)
            if mm and mm.group(1).startswith(d + "/"):
                rel = True
                if res:
                    fds.add(res.group(1))
        elif name in ("unlink", "unlinkat"):
            mm = re.search(r'"([^"]*)"', rest)
            rel = bool(mm and mm.group(1).startswith(d + "/"))
        elif name in ("write", "pwrite64", "fsync", "fdatasync"):
            fd = rest.split(",")[0].split(")")[0].strip()
            rel = fd in fds
        elif name == "close":
            pass
        if pid == main:
            counts[name] = counts.get(name, 0) + 1
            if rel:
                pts.append((name, counts[name]))
    return pts


def search(binary, limit=None):
    evaluations = 0
    for max_size, mode, ops in HISTORIES:
        d = tempfile.mkdtemp(prefix="verif-crash-")
        log = d + ".strace"
        try:
            subprocess.run(["strace", "-f", "-e", "trace=" + CALLS, "-o", log, binary, "store-crash-run", d, str(max_size), mode, ops],
                           stdout=subprocess.PIPE, stderr=subprocess.PIPE, text=True, timeout=120)
            pts = _points(open(log, errors="replace").read(), d)
        finally:
            shutil.rmtree(d, ignore_errors=True)
            try:
                os.unlink(log)
            except OSError:
                pass
        if limit:
            pts = pts[:limit]
        for name, j in pts:
            d = tempfile.mkdtemp(prefix="verif-crash-")
            try:
                p = subprocess.run(["strace", "-f", "-qq", "-e", "trace=%s" % name, "-e", "inject=%s:signal=SIGKILL:when=%d" % (name, j), "-o", "/dev/null",
                                    binary, "store-crash-run", d, str(max_size), mode, ops],
                                   stdout=subprocess.PIPE, stderr=subprocess.PIPE, text=True, timeout=120)
                acked = len([l for l in p.stdout.splitlines() if l.startswith("ACK ")])
                if "OPENED" not in p.stdout:
                    acked = 0
                evaluations += 1
                v = subprocess.run([binary, "store-crash-verify", d, str(max_size), mode, ops, str(acked), "on entry to %s #%d" % (name, j)],
                                   stdout=subprocess.PIPE, stderr=subprocess.PIPE, text=True, timeout=120)
                for line in v.stdout.splitlines():
                    if line.startswith("{") and json.loads(line).get("found"):
                        w = json.loads(line)
                        w["scenario"] = "crash"
                        w["crash_point"] = "%s #%d" % (name, j)
                        w["config"] = "max_file_size=%d merge=%s" % (max_size, mode)
                        return w
                if v.returncode != 0:
                    return {"found": True, "scenario": "crash", "kind": "crash-verify-died", "props": "C03", "crash_point": "%s #%d" % (name, j),
                            "history": ops, "observed": "the verifying process exited with %d: %s" % (v.returncode, v.stderr[-400:]), "expected": "the directory opens"}
            finally:
                shutil.rmtree(d, ignore_errors=True)
    # torn last entry
    for max_size, mode, ops in TRUNCATIONS:
        nops = len(ops.split(";"))
        for cut in CUTS:
            d = tempfile.mkdtemp(prefix="verif-crash-")
            try:
                subprocess.run([binary, "store-crash-run", d, str(max_size), mode, ops], stdout=subprocess.PIPE, stderr=subprocess.PIPE, text=True, timeout=120)
                data = sorted((int(f.split(".")[0]), f) for f in os.listdir(d) if f.endswith(".bitcask.data") and os.path.getsize(os.path.join(d, f)) > 0)
                if not data:
                    continue
                last = os.path.join(d, data[-1][1])
                size = os.path.getsize(last)
                if size <= cut:
                    continue
                os.truncate(last, size - cut)
                evaluations += 1
                v = subprocess.run([binary, "store-crash-verify", d, str(max_size), mode, ops, str(nops - 1), "in the middle of the last write (%s cut by %d bytes)" % (data[-1][1], cut)],
                                   stdout=subprocess.PIPE, stderr=subprocess.PIPE, text=True, timeout=120)
                for line in v.stdout.splitlines():
                    if line.startswith("{") and json.loads(line).get("found"):
                        w = json.loads(line)
                        w["scenario"] = "crash"
                        w["crash_point"] = "last entry cut by %d bytes" % cut
                        w["config"] = "max_file_size=%d merge=%s" % (max_size, mode)
                        return w
                if v.returncode != 0:
                    return {"found": True, "scenario": "crash", "kind": "crash-verify-died", "props": "C03", "crash_point": "last entry cut by %d bytes" % cut,
                            "history": ops, "observed": "the verifying process exited with %d: %s" % (v.returncode, v.stderr[-400:]), "expected": "the directory opens"}
            finally:
                shutil.rmtree(d, ignore_errors=True)
    return {"found": False, "evaluations": evaluations,
            "searched": "%d kill points (every openat/write/fsync/unlink on a store file, plus the last entry cut by 1..17 bytes) over %d histories with rollovers, merges, reopens and values larger than the write buffer; after each kill the directory was reopened and compared with the map model, further operations were acknowledged, and a second restart was compared again" % (evaluations, len(HISTORIES))}
