"""Bounded stand-in (Kani) for src/storage/bitcask/bufio.rs, which unit `log` sees only through shims (T: the
position-tracking wrappers report the logical offset).  The file is included verbatim with #[path]; the harnesses are
in kani/bufio/src/lib.rs.in.  Bounds: two writes of at most 4 symbolic bytes after at most 3 existing bytes; one read
of at most 4 of 6 symbolic bytes and one seek.  Never counted as proved.  The result is cached per content of bufio.rs
(build/kani-bufio.cache.json) because a run takes about five minutes."""
import hashlib
import json
import os
import re
import shutil
import subprocess

VERIF = os.path.dirname(os.path.dirname(os.path.abspath(__file__)))
REPO = os.environ.get("VERIF_REPO", "/repo")


def run(timeout=1800):
    src = os.path.join(REPO, "src", "storage", "bitcask", "bufio.rs")
    tmpl = os.path.join(VERIF, "kani", "bufio")
    sha = hashlib.sha256(open(src, "rb").read() + open(os.path.join(tmpl, "src", "lib.rs.in"), "rb").read()).hexdigest()[:16]
    cache = os.path.join(VERIF, "build", "kani-bufio.cache.json")
    if os.path.exists(cache):
        c = json.load(open(cache))
        if c.get("sha") == sha:
            c["cached"] = True
            return c
    crate = os.path.join(VERIF, "build", "kani-bufio")
    shutil.rmtree(crate, ignore_errors=True)
    os.makedirs(os.path.join(crate, "src"))
    shutil.copy(os.path.join(tmpl, "Cargo.toml.in"), os.path.join(crate, "Cargo.toml"))
    open(os.path.join(crate, "src", "lib.rs"), "w").write(open(os.path.join(tmpl, "src", "lib.rs.in")).read().replace("@REPO@", REPO))
    env = dict(os.environ, CARGO_NET_OFFLINE="true")
    try:
        p = subprocess.run(["cargo", "kani"], cwd=crate, env=env, stdout=subprocess.PIPE, stderr=subprocess.STDOUT, text=True, timeout=timeout)
        out = p.stdout
        m = re.search(r"Complete - (\d+) successfully verified harnesses, (\d+) failures, (\d+) total", out)
        res = {"sha": sha, "tool": "kani (cbmc)", "label": "bounded stand-in, never counted as proved",
               "harnesses": int(m.group(3)) if m else 0, "verified": int(m.group(1)) if m else 0, "failures": int(m.group(2)) if m else None,
               "bounds": "writer: <=3 existing bytes, two writes of <=4 symbolic bytes, flush; reader: 6 symbolic bytes, one read of <=4, one seek; unwind 6 / 8",
               "exit": p.returncode, "times_s": [float(x) for x in re.findall(r"Verification Time: ([0-9.]+)s", out)],
               "failed_checks": re.findall(r"Failed Checks: (.*)", out)[:5]}
    except subprocess.TimeoutExpired:
        res = {"sha": sha, "tool": "kani (cbmc)", "label": "bounded stand-in", "harnesses": 2, "verified": 0, "failures": None, "exit": None, "note": "timeout after %d s" % timeout}
    shutil.rmtree(os.path.join(crate, "target"), ignore_errors=True)
    if res.get("exit") == 0:
        json.dump(res, open(cache, "w"), indent=1)
    return res


if __name__ == "__main__":
    print(json.dumps(run(), indent=1))
