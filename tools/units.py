"""Unit definitions: which prelude / lemma / repo files make up each generated Verus file."""

NET_HEADER = """#![feature(sized_hierarchy)]
#![allow(unused_imports, dead_code, unused_variables, unused_mut, unused_parens, unused_braces)]
use vstd::prelude::*;
use std::io::Cursor;
use bytes::{Buf, Bytes};

"""

from gen import make_call_rule, make_seq_rule, make_for_index_rule, make_ghost_arg_rule, make_for_rule, rule_mut_self, make_mut_param_rule

R_PREALLOC = make_call_rule("R-prealloc", "Vec::with_capacity", "verif_with_capacity", "Ghost(verif_prealloc_budget)")

R_STD_IO = make_seq_rule("R-std-io", "std::io::", "io::")
R_FOR_ITEMS = make_for_index_rule("items")
R_DEREF_SLICE = make_seq_rule("R-deref-slice", "&self.buffer[..]", "self.buffer.verif_as_slice()")

UNITS = {
    "resp": {
        "name": "resp",
        "header": NET_HEADER,
        "specs": ["frame.spec"],
        "parts": [
            ("raw", "prelude/net_prelude.rs", "prelude"),
            ("raw", "lemmas/resp_lemmas.rs", "lemma", {"mod": "frame"}),
            ("repo", "src/net/frame.rs", {"rules": (R_PREALLOC,), "mod": "frame"}),
        ],
        "root_uses": "pub use frame::*;\n",
        "extern": ["bytes"],
    },
    "net": {
        "name": "net",
        "header": NET_HEADER,
        "specs": ["frame.spec", "connection.spec"],
        "parts": [
            ("raw", "prelude/net_prelude.rs", "prelude"),
            ("raw", "prelude/conn_prelude.rs", "prelude"),
            ("raw", "lemmas/resp_lemmas.rs", "lemma", {"mod": "frame"}),
            ("repo", "src/net/frame.rs", {"rules": (R_PREALLOC,), "mod": "frame", "stub_all": True}),
            ("raw", "lemmas/conn_lemmas.rs", "lemma", {"mod": "frame"}),
            ("repo", "src/net/error.rs", {"mod": "error", "only": ["enum Error"]}),
            ("raw", "lemmas/conn_views.rs", "lemma", {"mod": "connection"}),
            ("repo", "src/net/connection.rs", {"rules": (R_STD_IO, R_DEREF_SLICE, R_FOR_ITEMS), "mod": "connection"}),
        ],
        "mod_uses": {"connection": "broadcast use super::error::verif_from_Error::axiom_from_Error_Io;\nuse super::frame::{self, Frame};", "error": "use super::command_shim as command;"},
        "root_uses": "pub use frame::*;\npub use error::Error;\npub use connection::Connection;\n",
        "extern": ["bytes"],
    },
}

# ------------------------------------------------------------------------------------------------
# unit store
import re as _re
from gen import make_ghost_arg_rule, make_for_rule, make_break_value_rule

STORE_HEADER = """#![feature(sized_hierarchy)]
#![allow(unused_imports, dead_code, unused_variables, unused_mut, unused_parens, unused_braces, unused_unsafe)]
use vstd::prelude::*;
use bytes::Bytes;
use std::path::{Path, PathBuf};

"""

WORLD_FNS = ["lock", "pop", "push", "create", "open", "remove_file", "metadata", "append", "sync", "sync_all", "copy", "read", "next", "sorted_fileids",
             "flush", "put", "delete", "get", "merge", "write", "new_active_datafile", "fileids_to_merge",
             "rebuild_storage", "populate_keydir_with_hintfile", "populate_keydir_with_datafile", "set", "del",
             "merge_on_interval", "sync_on_interval", "verif_blocking_merge", "verif_blocking_sync"]
R_GHOST_ARG = make_ghost_arg_rule(WORLD_FNS, skip_after={"get": ["keydir"]}, only_after={"get": ["reader", "self"], "pop": ["readers"], "push": ["readers"]})


def _dashmap_for(iter_text, pat):
    # self . ctx . keydir . iter_mut ( ) . filter ( | e | BODY )   /  MAP . iter ( )  /  MAP . iter_mut ( )
    m = _re.match(r"^(.*) \. (iter|iter_mut) \( \)(?: \. filter \( \| (\w+) \| (.*) \))?$", iter_text)
    if not m:
        return None
    mp = m.group(1).replace(" ", "")
    mut = m.group(2) == "iter_mut"
    name = pat.replace("mut ", "").strip()
    setup = "let verif_keys = %s.verif_keys(); let mut verif_i: usize = 0;" % mp
    cond = "verif_i < verif_keys.len()"
    guard = "%s.verif_guard%s(&verif_keys[verif_i])" % (mp, "_mut" if mut else "")
    bind = "let ghost verif_map = %s@; let %s = %s; verif_i += 1;" % (mp, pat, guard)
    if m.group(3):
        body = _re.sub(r"\b%s\b" % m.group(3), "(&%s)" % name, m.group(4))
        bind += " if !(%s) { @@SKIP@@ continue; }" % body.replace(" . ", ".").replace("( ", "(").replace(" )", ")").replace("& ", "&")
    return setup, cond, bind


R_DASHMAP_ITER = make_for_rule("R-dashmap-iter", _dashmap_for)


def _collect_for(iter_text, pat):
    t = iter_text.replace(" ", "")
    if t == "&fileids_to_merge":
        return ("let verif_ids = fileids_to_merge.verif_to_vec(); let mut verif_j: usize = 0;", "verif_j < verif_ids.len()",
                "let %s = &verif_ids[verif_j]; verif_j += 1;" % pat)
    if t == "fileids":
        return ("let mut verif_j: usize = 0;", "verif_j < fileids.len()", "let %s = fileids[verif_j]; verif_j += 1;" % pat)
    m = _re.match(r"^(\d+)\.\.readers\.capacity\(\)$", t)
    if m and pat == "_":
        return ("let verif_n: usize = readers.capacity(); let mut verif_j: usize = %s;" % m.group(1), "verif_j < verif_n", "verif_j += 1;")
    return None


R_FOR_COLLECT = make_for_rule("R-for-collect", _collect_for)
R_ARC = make_seq_rule("R-arc", "Arc<Context>", "Context")
R_ARC2 = make_seq_rule("R-arc", "Arc<Mutex<Writer>>", "Mutex<Writer>")
R_ARC3 = make_seq_rule("R-arc", "Arc<ArrayQueue<Reader>>", "ArrayQueue<Reader>")
R_INTERIOR_1 = make_seq_rule("R-interior", "keydir: &DashMap", "keydir: &mut DashMap")
R_INTERIOR_2 = make_seq_rule("R-interior", "stats: &DashMap", "stats: &mut DashMap")
R_INTERIOR_3 = make_seq_rule("R-interior", "&keydir, &stats", "&mut keydir, &mut stats")
R_INTERIOR_4 = make_seq_rule("R-interior", "let keydir = DashMap::default()", "let mut keydir = DashMap::default()")
R_INTERIOR_5 = make_seq_rule("R-interior", "let stats = DashMap::default()", "let mut stats = DashMap::default()")
R_FILEIDS_TY = make_seq_rule("R-fileids", "io::Result<impl Iterator<Item = u64>>", "io::Result<Vec<u64>>")
R_STD_IO2 = make_seq_rule("R-std-io", "std::io::", "io::")

R_VIS = make_seq_rule("R-vis", "pub fn sync", "fn sync")
R_VIS2 = make_seq_rule("R-vis", "pub fn get_handle", "fn get_handle")
R_BREAK_VALUE = make_break_value_rule(["get"])
R_INTERIOR_CLOSE = make_seq_rule("R-interior", "fn close(&self)", "fn close(&mut self)")
# the Handle's mutating operations lock the writer: `&self` is read as `&mut self` so that the Mutex shim can expose the protected
# Writer as a view (old / final) and the map-level step contracts can be carried up to the Handle (C01.handle.*)
R_INTERIOR_HPUT = make_seq_rule("R-interior", "fn put(&self", "fn put(&mut self")
R_INTERIOR_HDEL = make_seq_rule("R-interior", "fn delete(&self", "fn delete(&mut self")
R_INTERIOR_HMERGE = make_seq_rule("R-interior", "fn merge(&self", "fn merge(&mut self")
R_INTERIOR_HSYNC = make_seq_rule("R-interior", "fn sync(&self", "fn sync(&mut self")
# Bitcask::open (start-up wiring).  R-arc for values: Arc::new(x) is x, cloning an Arc yields the same object (equal value);
# the pool is created in the World; the background thread and the broadcast channel are shims without effect on the World
R_ARC_NEW = make_seq_rule("R-arc", "Arc::new(", "verif_arc_new(")
R_ARC_CLONE_CTX = make_seq_rule("R-arc", "ctx.clone()", "verif_arc_clone(&ctx)")
R_ARC_CLONE_HANDLE = make_seq_rule("R-arc", "self.handle.clone()", "verif_arc_clone(&self.handle)")
R_POOL_NEW1 = make_seq_rule("R-ghost-arg", "ArrayQueue::new(", "ArrayQueue::verif_new(Tracked(w), ")
R_THREAD = make_seq_rule("R-thread", 'std::thread::Builder::new().name("bitcask-background-tasks".into()).spawn(move || background_tasks(handle, notify_shutdown))?;',
                         "verif_thread::spawn_background(handle, notify_shutdown)?;")
# R-ref-pattern: `&PAT = place_ref` is `PAT = *place_ref` (the fields bound are Copy)
R_REF_PAT = make_seq_rule("R-ref-pattern", "&MergePolicy::Window { start, end } = policy", "MergePolicy::Window { start, end } = *policy")
def rule_f64_gt(toks, lo, hi, edits, log, it=None):
    """R-f64-cmp: `L > R` where L is a postfix chain ending in `.fragmentation()` and R is a path of identifiers (a local, or a
    field path such as `self.conf.merge.thresholds.fragmentation`) -> `verif_f64_gt(L, R)`.  Verus leaves the result of an exec
    comparison of floats unspecified; the shim returns the uninterpreted fixed relation f64_gt.  The rule does not depend on how
    the right operand is spelled.  Calls of `.fragmentation()` that the rule does NOT consume are counted (gen records them as
    `f64_unrewritten`): a failed obligation in such a function is undecided, never a violation."""
    from gen import sig_idx
    s = sig_idx(toks, lo, hi)
    tx = [toks[i].text for i in s]
    n = 0
    while n < len(s) - 4:
        if tx[n] == "." and tx[n + 1] == "fragmentation" and tx[n + 2] == "(" and tx[n + 3] == ")" and tx[n + 4] == ">" and tx[n + 5] not in ("=", ">"):
            # left operand: walk back over IDENT (. IDENT)*
            a = n - 1
            if a < 0 or toks[s[a]].kind != "id":
                n += 1
                continue
            while a - 2 >= 0 and tx[a - 1] == "." and toks[s[a - 2]].kind == "id":
                a -= 2
            if a - 1 >= 0 and tx[a - 1] in (".", "::", ")", "]", "?"):
                n += 1
                continue
            # right operand: IDENT (. IDENT)*
            b = n + 5
            if b >= len(s) or toks[s[b]].kind != "id":
                n += 1
                continue
            while b + 2 < len(s) and tx[b + 1] == "." and toks[s[b + 2]].kind == "id":
                b += 2
            if b + 1 < len(s) and tx[b + 1] in (".", "(", "[", "::", "?", "as"):
                n += 1
                continue
            edits.ins_before(s[a], "verif_f64_gt(", None)
            edits.replace[s[n + 4]] = ","
            edits.ins_after(s[b], ")", None)
            log("R-f64-cmp: `%s > %s` -> `verif_f64_gt(.., ..)`" % ("".join(tx[a:n + 4]), "".join(tx[n + 5:b + 1])))
            n = b + 1
            continue
        n += 1


R_F64_CMP = rule_f64_gt
# background tasks (C18): ghost log of sleeps and hand-offs; Duration arithmetic as methods (operator traits on a shim type);
# cloning the Handle is cloning three Arcs (R-arc for values)
R_BG_GHOST = make_ghost_arg_rule(["sleep", "spawn_blocking", "merge_on_interval", "sync_on_interval", "recv"], skip_after={}, arg="Tracked(b)", param="Tracked(b): Tracked<&mut BgLog>")
R_DUR_SUB = make_seq_rule("R-duration-op", "interval - jitter", "interval.verif_sub(jitter)")
R_DUR_ADD = make_seq_rule("R-duration-op", "interval + jitter", "interval.verif_add(jitter)")
R_ARC_CLONE_H = make_seq_rule("R-arc", "handle.clone()", "verif_arc_clone(&handle)", not_after=(".",))
BG_RULES = (R_DUR_SUB, R_DUR_ADD, R_ARC_CLONE_H, make_mut_param_rule("shutdown"))
OPEN_RULES = (R_REF_PAT, R_F64_CMP, R_ARC_NEW, R_ARC_CLONE_CTX, R_ARC_CLONE_HANDLE, R_POOL_NEW1, R_THREAD)
R_INTERIOR_KVSET = make_seq_rule("R-interior", "fn set(&self", "fn set(&mut self")
R_INTERIOR_KVDEL = make_seq_rule("R-interior", "fn del(&self", "fn del(&mut self")
# the supertraits / bounds of the trait are about threads and error reporting, not about what the methods compute
R_KV_BOUNDS = make_seq_rule("R-bounds", "KeyValueStorage: Clone + Send + 'static", "KeyValueStorage: KvView")
R_KV_ERR_BOUND = make_seq_rule("R-bounds", "type Error: std::error::Error + Send + Sync;", "type Error;")
STORE_RULES = (R_VIS, R_VIS2, R_BREAK_VALUE, R_INTERIOR_CLOSE, R_INTERIOR_HPUT, R_INTERIOR_HDEL, R_INTERIOR_HMERGE, R_INTERIOR_HSYNC, R_INTERIOR_KVSET, R_INTERIOR_KVDEL) + OPEN_RULES + BG_RULES + (R_GHOST_ARG, R_BG_GHOST, R_DASHMAP_ITER, R_FOR_COLLECT, R_ARC, R_ARC2, R_ARC3, R_INTERIOR_1, R_INTERIOR_2, R_INTERIOR_3,
               R_INTERIOR_4, R_INTERIOR_5)

BITCASK_ONLY = [
    "enum Error", "struct Context", "struct Writer", "struct Reader", "struct KeyDirEntry", "struct HintFileEntry", "struct DataFileEntry",
    "impl Writer::fn put", "impl Writer::fn delete", "impl Writer::fn write", "impl Writer::fn new_active_datafile", "impl Writer::fn sync",
    "impl Reader::fn get",
    "fn rebuild_storage", "fn populate_keydir_with_hintfile", "fn populate_keydir_with_datafile",
    "impl Writer::fn merge", "impl Context::fn fileids_to_merge",
    "struct Bitcask", "impl Bitcask::fn open", "impl Bitcask::fn get_handle", "impl Drop for Bitcask::fn drop", "impl Context::fn can_merge", "fn background_tasks", "fn merge_on_interval", "fn sync_on_interval", "fn verif_blocking_merge", "fn verif_blocking_sync",
    "impl KeyValueStorage for Handle::type Error", "impl KeyValueStorage for Handle::fn set", "impl KeyValueStorage for Handle::fn get", "impl KeyValueStorage for Handle::fn del",
    "struct Handle", "impl Handle::fn put", "impl Handle::fn delete", "impl Handle::fn get", "impl Handle::fn merge", "impl Handle::fn sync", "impl Handle::fn close",
]

UNITS["store"] = {
    "name": "store",
    "derive_keep": ["Debug", "Default", "PartialEq", "Eq"],
    "header": STORE_HEADER,
    "specs": ["log.spec", "utils.spec", "storage.spec", "config.spec", "store.spec"],
    "parts": [
        ("raw", "prelude/store_prelude.rs", "prelude"),
        ("raw", "lemmas/world_lemmas.rs", "lemma"),
        ("repo", "src/storage/bitcask/config.rs", {"mod": "config", "rules": (make_seq_rule("R-vis", "pub fn", "pub(super) fn"), R_GHOST_ARG),
                                                   "only": ["struct Config", "enum SyncStrategy", "struct MergeStrategy", "enum MergePolicy", "struct MergeTriggers", "struct MergeThresholds",
                                                            "impl Config::fn concurrency", "impl Config::fn readers_cache_size", "impl Config::fn max_file_size", "impl Config::fn sync",
                                                            "impl Config::fn merge_policy", "impl Config::fn merge_trigger_fragmentation", "impl Config::fn merge_trigger_dead_bytes",
                                                            "impl Config::fn merge_threshold_fragmentation", "impl Config::fn merge_threshold_dead_bytes", "impl Config::fn merge_threshold_small_file",
                                                            "impl Config::fn merge_check_interval_ms", "impl Config::fn merge_check_jitter", "impl Config::fn open", "impl Config::fn path"]}),
        ("raw", "prelude/log_ghost.rs", "prelude", {"mod": "log"}),
        ("repo", "src/storage/bitcask/log.rs", {"mod": "log", "stub_all": True, "rules": (R_GHOST_ARG,)}),
        ("repo", "src/storage/bitcask/utils.rs", {"mod": "utils", "stub_all": True, "rules": (R_GHOST_ARG, R_FILEIDS_TY),
                                                  "only": ["fn datafile_name", "fn hintfile_name", "fn sorted_fileids", "fn timestamp"]}),
        ("repo", "src/storage.rs", {"mod": "kvtrait", "rules": (R_GHOST_ARG, R_INTERIOR_KVSET, R_INTERIOR_KVDEL, R_KV_ERR_BOUND), "header_rules": (R_KV_BOUNDS,),
                                    "only": ["trait KeyValueStorage", "trait KeyValueStorage::type Error", "trait KeyValueStorage::fn set", "trait KeyValueStorage::fn get", "trait KeyValueStorage::fn del"]}),
        ("raw", "prelude/store_entry_views.rs", "prelude", {"mod": "bitcask"}),
        ("raw", "lemmas/store_lemmas.rs", "lemma", {"mod": "bitcask"}),
        ("raw", "lemmas/recover_lemmas.rs", "lemma", {"mod": "bitcask"}),
        ("raw", "lemmas/merge_lemmas.rs", "lemma", {"mod": "bitcask"}),
        ("raw", "lemmas/mergelog_lemmas.rs", "lemma", {"mod": "bitcask"}),
        ("raw", "lemmas/durable_lemmas.rs", "lemma", {"mod": "bitcask"}),
        ("raw", "lemmas/size_lemmas.rs", "lemma", {"mod": "bitcask"}),
        ("raw", "lemmas/crashmerge_lemmas.rs", "lemma", {"mod": "bitcask"}),
        ("repo", "src/storage/bitcask.rs", {"mod": "bitcask", "rules": STORE_RULES, "only": BITCASK_ONLY, "select": True,
                                            "header_rules": (make_seq_rule("R-drop", "Drop for Bitcask", "Bitcask"),),
                                            "outline": {"fn merge_on_interval": {"kind": "blocking", "name": "verif_blocking_merge", "args": "handle", "params": "mut handle: Handle", "ret": "Result<(), Error>"},
                                                        "fn sync_on_interval": {"kind": "blocking", "name": "verif_blocking_sync", "args": "handle", "params": "mut handle: Handle", "ret": "Result<(), Error>"}}}),
    ],
    "mod_uses": {
        "log": "use super::utils;\nuse super::io::Write;",
        "bitcask": "use super::log::{self, LogDir, LogIterator, LogStatistics, LogWriter, LogIndex, enc_len};\nuse super::utils::{self, datafile_name};\nuse super::config::*;\nuse super::io::BufWriter;\nuse super::kvtrait::KeyValueStorage;\nuse super::broadcast;",
        "kvtrait": "",
        "utils": "",
        "config": "use super::bitcask::Bitcask;",
    },
    "root_uses": "pub use bitcask::Error;\n",
    "extern": ["bytes"],
}

# ------------------------------------------------------------------------------------------------
# unit log: the bodies of log.rs against byte-level shims
LOG_HEADER = """#![feature(sized_hierarchy)]
#![allow(unused_imports, dead_code, unused_variables, unused_mut, unused_parens, unused_braces, unused_unsafe)]
use vstd::prelude::*;
use std::path::{Path, PathBuf};

"""
R_MMAP_SLICE = make_seq_rule("R-deref-slice", "&self.mmap[(start..end)]", "self.mmap.verif_slice(start, end)")
R_MMAP_READER = make_seq_rule("R-deref-slice", "self.mmap[start..end].reader()", "verif_slice_reader(self.mmap.verif_slice(start, end))")
UNITS["log"] = {
    "name": "log",
    "header": LOG_HEADER,
    "derive_keep": ["Debug", "Default", "PartialEq", "Eq"],
    "specs": ["log_local.spec", "utils_local.spec"],
    "parts": [
        ("raw", "prelude/log_prelude.rs", "prelude"),
        ("repo", "src/storage/bitcask/utils.rs", {"mod": "utils", "stub_all": True, "only": ["fn datafile_name", "fn hintfile_name"]}),
        ("raw", "lemmas/log_lemmas.rs", "lemma", {"mod": "log"}),
        ("repo", "src/storage/bitcask/log.rs", {"mod": "log", "rules": (R_MMAP_SLICE, R_MMAP_READER)}),
    ],
    "mod_uses": {"log": "use super::utils;\nuse super::io::Write;", "utils": ""},
    "root_uses": "",
    "extern": [],
}

# ------------------------------------------------------------------------------------------------
# unit cmd: request decoding and execution (C06)
R_TRY_INTO_DEL = make_seq_rule("R-try-into", "Command::Del(parser.try_into()?)", "Command::Del(Del::try_from(parser)?)")
R_TRY_INTO_GET = make_seq_rule("R-try-into", "Command::Get(parser.try_into()?)", "Command::Get(Get::try_from(parser)?)")
R_TRY_INTO_SET = make_seq_rule("R-try-into", "Command::Set(parser.try_into()?)", "Command::Set(Set::try_from(parser)?)")
R_KV_GHOST = make_ghost_arg_rule(["apply", "verif_blocking", "get", "set", "del", "run"], skip_after={}, arg="Tracked(m)", param="Tracked(m): Tracked<&mut KvModel>")
R_SPAWN = make_seq_rule("R-outline", "tokio::task::spawn_blocking(", "verif_task::spawn_blocking(")


def _keys_for(iter_text, pat):
    if iter_text.replace(" ", "") == "self.keys":
        return ("let mut verif_j: usize = 0;", "verif_j < self.keys.len()", "let %s = &self.keys[verif_j]; verif_j += 1;" % pat)
    if iter_text.replace(" ", "") == "cmd.keys":
        return ("let mut verif_j: usize = 0;", "verif_j < cmd.keys.len()", "let %s = &cmd.keys[verif_j]; verif_j += 1;" % pat)
    return None


R_FOR_KEYS = make_for_rule("R-for-collect", _keys_for)
# Verus cannot resolve the auto-trait obligation `TcpStream: Unpin` at the concrete call sites in command/*.rs; the bound plays no role for the shim stream
R_NO_UNPIN = make_seq_rule("R-unpin", "AsyncWriteExt + Unpin", "AsyncWriteExt")
R_TRYFROM_CALL = make_seq_rule("R-tryfrom-call", "Command::try_from(frame)", "super::command::verif_command_try_from(frame)")
# `"GET".into()` is `Bytes::from("GET")` by the blanket impl of Into (vstd gives Into::into no meaning for foreign From impls)
R_INTO_GET = make_seq_rule("R-try-into", 'Self::BulkString("GET".into())', 'Self::BulkString(Bytes::from("GET"))')
R_INTO_SET = make_seq_rule("R-try-into", 'Self::BulkString("SET".into())', 'Self::BulkString(Bytes::from("SET"))')
R_INTO_DEL = make_seq_rule("R-try-into", 'Self::BulkString("DEL".into())', 'Self::BulkString(Bytes::from("DEL"))')
CMD_RULES = (R_INTO_GET, R_INTO_SET, R_INTO_DEL, R_TRY_INTO_DEL, R_TRY_INTO_GET, R_TRY_INTO_SET, R_SPAWN, R_FOR_KEYS, R_KV_GHOST)
# client.rs: `.into()` spelled as the From impl it resolves to (rustc checks the type); the two error constructors that use a macro /
# std::io::Error::new become shims; `keys.into_iter().map(Utf8Bytes::from).collect()` is std's element-wise map, in order
R_CL_INTO_FRAME = make_seq_rule("R-into", "let frame: Frame = cmd.into();", "let frame: Frame = Frame::from(cmd);")
R_CL_INTO_KEY = make_seq_rule("R-into", "Get::new(key.into())", "Get::new(Utf8Bytes::from(key))")
R_CL_INTO_KEY2 = make_seq_rule("R-into", "Set::new(key.into(), value)", "Set::new(Utf8Bytes::from(key), value)")
R_CL_INTO_ERR = make_seq_rule("R-into", "Err(command::Error::BadFrame(f).into())", "Err(net::Error::from(command::Error::BadFrame(f)))")
R_CL_ANYHOW = make_seq_rule("R-macro", "super::Error::Storage(anyhow::anyhow!(err))", "net::Error::Storage(verif_anyhow_msg(err))")
R_CL_RESET = make_seq_rule("R-into", 'Err(std::io::Error::new( std::io::ErrorKind::ConnectionReset, "connection reset by peer", ) .into())', "Err(net::Error::from(verif_connection_reset()))")
R_CL_MAP = make_seq_rule("R-iter-map", "keys.into_iter().map(Utf8Bytes::from).collect()", "verif_map_utf8(keys)")
R_CL_STR_EQ = make_seq_rule("R-str-eq", 'Frame::SimpleString(s) if s == "OK"', 'Frame::SimpleString(s) if verif_string_eq(&s, "OK")')
CLIENT_RULES = (R_CL_STR_EQ, R_CL_INTO_FRAME, R_CL_INTO_KEY, R_CL_INTO_KEY2, R_CL_INTO_ERR, R_CL_ANYHOW, R_CL_RESET, R_CL_MAP)
CMD_USES = "broadcast use super::error::verif_from_Error::axiom_from_Error_Io, super::error::verif_from_Error::axiom_from_Error_AsyncTask;\nuse super::verif_net as net;\nuse super::frame::{self, Frame};\nuse super::connection::Connection;\nuse super::command::{self, Utf8Bytes, ubytes, SCmd, reply, effect, del_fold, ok_text, req_frame, lemma_names_bytes, lemma_fview_array, b_del, b_get, b_set};\nuse std::convert::TryFrom;"
UNITS["cmd"] = {
    "name": "cmd",
    "header": NET_HEADER,
    "derive_keep": ["Debug"],
    "specs": ["frame.spec", "connection.spec", "command.spec"],
    "parts": [
        ("raw", "prelude/net_prelude.rs", "prelude"),
        ("raw", "prelude/conn_prelude.rs", "prelude"),
        ("raw", "prelude/cmd_prelude.rs", "prelude"),
        ("raw", "lemmas/resp_lemmas.rs", "lemma", {"mod": "frame"}),
        ("repo", "src/net/frame.rs", {"rules": (R_PREALLOC,), "mod": "frame", "stub_all": True}),
        ("raw", "lemmas/conn_lemmas.rs", "lemma", {"mod": "frame"}),
        ("repo", "src/net/error.rs", {"mod": "error", "only": ["enum Error"]}),
        ("raw", "lemmas/conn_views.rs", "lemma", {"mod": "connection"}),
        ("repo", "src/net/connection.rs", {"rules": (R_STD_IO, R_DEREF_SLICE, R_FOR_ITEMS), "mod": "connection", "stub_all": True, "header_rules": (R_NO_UNPIN,)}),
        ("raw", "lemmas/cmd_lemmas.rs", "lemma", {"mod": "command"}),
        ("repo", "src/net/command.rs", {"mod": "command", "rules": CMD_RULES, "only": [
            "enum Error", "enum Command", "struct Parser", "struct Utf8Bytes",
            "impl Command::fn apply", "impl TryFrom<Frame> for Command::fn try_from", "impl TryFrom<Frame> for Command::type Error", "impl TryFrom<Parser> for Del::type Error",
            "impl TryFrom<Parser> for Get::type Error", "impl TryFrom<Parser> for Set::type Error", "impl TryFrom<Bytes> for Utf8Bytes::type Error", "impl Parser::fn new", "impl Parser::fn get_string", "impl Parser::fn get_bytes",
            "impl Parser::fn finish", "impl TryFrom<Parser> for Del::fn try_from", "impl TryFrom<Parser> for Get::fn try_from",
            "impl TryFrom<Parser> for Set::fn try_from", "impl AsRef<Bytes> for Utf8Bytes::fn as_ref", "impl TryFrom<Bytes> for Utf8Bytes::fn try_from", "impl From<String> for Utf8Bytes::fn from"]}),
        ("raw", "lemmas/cmd_views_get.rs", "lemma", {"mod": "get"}),
        ("repo", "src/net/command/get.rs", {"mod": "get", "rules": CMD_RULES, "only": ["struct Get", "impl Get::fn new", "impl Get::fn apply", "impl Get::fn verif_blocking", "impl From<Get> for Frame::fn from"],
                                            "outline": {"impl Get::fn apply": "Result<Option<bytes::Bytes>, KV::Error>"}}),
        ("raw", "lemmas/cmd_views_set.rs", "lemma", {"mod": "set"}),
        ("repo", "src/net/command/set.rs", {"mod": "set", "rules": CMD_RULES, "only": ["struct Set", "impl Set::fn new", "impl Set::fn apply", "impl Set::fn verif_blocking", "impl From<Set> for Frame::fn from"],
                                            "outline": {"impl Set::fn apply": "Result<(), KV::Error>"}}),
        ("raw", "lemmas/cmd_views_del.rs", "lemma", {"mod": "del"}),
        ("repo", "src/net/command/del.rs", {"mod": "del", "rules": CMD_RULES, "only": ["struct Del", "impl Del::fn new", "impl Del::fn apply", "impl Del::fn verif_blocking", "impl From<Del> for Frame::fn from"],
                                            "outline": {"impl Del::fn apply": "Result<i64, KV::Error>"}}),
        ("raw", "lemmas/srv_lemmas.rs", "lemma", {"mod": "server"}),
        ("repo", "src/net/server.rs", {"mod": "server", "rules": CMD_RULES + (rule_mut_self, R_TRYFROM_CALL), "select": True, "only": ["struct Handler", "impl Handler<KV>::fn run"]}),
        ("raw", "prelude/client_prelude.rs", "prelude", {"mod": "client"}),
        ("raw", "lemmas/client_lemmas.rs", "lemma", {"mod": "client"}),
        ("repo", "src/net/client.rs", {"mod": "client", "rules": CLIENT_RULES, "only": ["struct Client", "impl Client::fn connect", "impl Client::fn get", "impl Client::fn set", "impl Client::fn del", "impl Client::fn read_response"]}),
    ],
    "mod_uses": {"connection": "broadcast use super::error::verif_from_Error::axiom_from_Error_Io;\nuse super::frame::{self, Frame};", "error": "",
                 "command": "use super::frame::{self, Frame};\nuse super::connection::Connection;\nuse super::{del::Del, get::Get, set::Set};\nuse std::convert::TryFrom;\nuse vstd::std_specs::iter::IteratorSpec;",
                 "get": CMD_USES, "set": CMD_USES, "del": CMD_USES,
                 "server": "use std::sync::Arc;\nuse std::convert::TryFrom;\nuse super::command::{Command, SCmd, spec_command, reply, effect, cview, req_frame};\nuse super::connection::Connection;\nuse super::frame::{self, Frame};",
                 "client": CMD_USES + "\nuse super::{del::Del, get::Get, set::Set};\nuse std::net::ToSocketAddrs;"},
    "root_uses": "pub use frame::*;\npub use error::Error;\npub use connection::Connection;\n",
    "extern": ["bytes"],
}

# ------------------------------------------------------------------------------------------------
# unit cmd10: Handler::run once more, under a contract for ARBITRARY input (C10, one connection)
import copy as _copy
_c10 = _copy.deepcopy({k: v for k, v in UNITS["cmd"].items() if k != "parts"})
_c10["name"] = "cmd10"
_c10["specs"] = ["frame.spec", "connection.spec", "command.spec", "server10.spec"]
_c10["spec_skip"] = {"command.spec": ("src/net/server.rs", "src/net/client.rs")}
_parts = []
for _p in UNITS["cmd"]["parts"]:
    if "client" in _p[1]:
        continue    # the client is verified once, in unit cmd
    if _p[0] == "repo" and _p[1].startswith("src/net/command"):
        _o = dict(_p[2]); _o["stub_all"] = True
        _parts.append(("repo", _p[1], _o))
    elif _p[0] == "raw" and _p[1] == "lemmas/srv_lemmas.rs":
        _parts.append(_p)
        _parts.append(("raw", "lemmas/srv10_lemmas.rs", "lemma", {"mod": "server"}))
    else:
        _parts.append(_p)
_c10["parts"] = _parts
UNITS["cmd10"] = _c10

# ------------------------------------------------------------------------------------------------
# unit bufio: the position-tracking wrappers of src/storage/bitcask/bufio.rs against shim Read / Write / Seek traits
def rule_result_map(toks, lo, hi, edits, log, it=None):
    """R-result-map: a body of the form `RECV.map(|v| { BODY })` on a Result becomes
    `match RECV { Ok(v) => Ok({ BODY }), Err(verif_e) => Err(verif_e) }` (the definition of Result::map; Verus closures cannot
    capture `&mut self.pos`)."""
    from gen import sig_idx, match_close
    if it is None or it.kind != "fn" or it.open is None:
        return
    s = sig_idx(toks, it.open + 1, it.end - 1)
    for n in range(len(s) - 5):
        if toks[s[n]].text == "." and toks[s[n + 1]].text == "map" and toks[s[n + 2]].text == "(" and toks[s[n + 3]].text == "|" \
                and toks[s[n + 5]].text == "|" and toks[s[n + 6]].text == "{":
            op = s[n + 2]
            cl = match_close(toks, op)
            if cl != s[-1]:
                continue
            ident = toks[s[n + 4]].text
            edits.ins_before(s[0], "match ", None)
            edits.replace[s[n]] = " { Ok("
            edits.replace[s[n + 1]] = ident
            edits.replace[s[n + 2]] = ") => Ok("
            for k in (n + 3, n + 4, n + 5):
                edits.replace[s[k]] = ""
            edits.replace[cl] = "), Err(verif_e) => Err(verif_e) }"
            log("R-result-map: RECV.map(|%s| {..}) -> match" % ident)
            return


BUFIO_HEADER = """#![feature(sized_hierarchy)]
#![allow(unused_imports, dead_code, unused_variables, unused_mut, unused_parens, unused_braces)]
use vstd::prelude::*;

"""
UNITS["bufio"] = {
    "name": "bufio",
    "header": BUFIO_HEADER,
    "derive_keep": ["Debug"],
    "specs": ["bufio.spec"],
    "parts": [
        ("raw", "prelude/bufio_prelude.rs", "prelude"),
        ("raw", "lemmas/bufio_lemmas.rs", "lemma", {"mod": "bufio"}),
        ("repo", "src/storage/bitcask/bufio.rs", {"mod": "bufio", "rules": (rule_result_map,)}),
    ],
    "mod_uses": {"bufio": "use super::io::{self, BufReader, BufWriter, Read, Seek, SeekFrom, Write, Stream};"},
    "root_uses": "",
    "extern": [],
}

# ------------------------------------------------------------------------------------------------
# unit refine: pure lemmas -- the byte-level contracts of log.rs (unit log) imply the record-level ones (assumed in unit store)
UNITS["refine"] = {
    "name": "refine",
    "header": BUFIO_HEADER,
    "specs": [],
    "parts": [("raw", "prelude/refine_prelude.rs", "prelude"), ("raw", "lemmas/refine_lemmas.rs", "lemma")],
    "mod_uses": {},
    "root_uses": "",
    "extern": [],
}

# ------------------------------------------------------------------------------------------------
# unit slots: the accept loop and the handler's destructor against a ghost model of the semaphore's permits (C15, scope-limited),
# plus src/shutdown.rs
SLOTS_HEADER = """#![feature(sized_hierarchy)]
#![allow(unused_imports, dead_code, unused_variables, unused_mut, unused_parens, unused_braces, unused_unsafe)]
use vstd::prelude::*;

"""
R_SLOT_GHOST = make_ghost_arg_rule(["acquire", "forget", "add_permits", "spawn", "listen", "drop"], skip_after={}, arg="Tracked(g)", param="Tracked(g): Tracked<&mut Slots>")
R_SLOT_NEW = make_seq_rule("R-ghost-arg", "Semaphore::new(", "Semaphore::verif_new(Tracked(g), ")
R_SLOT_NEW_SIG = make_seq_rule("R-ghost-arg", "conf: super::Config)", "conf: super::Config, Tracked(g): Tracked<&mut Slots>)")
R_SLOT_ADDR = make_seq_rule("R-macro", '&format!("{}:{}", conf.host, conf.port)', "&verif_socket_addr(&conf.host, conf.port)")
# R-drop: the destructor is read as an ordinary method (it needs the ghost argument); that Rust calls it exactly once when the
# Handler goes away -- also while unwinding -- is assumption TDROP
R_DROP_IMPL = make_seq_rule("R-drop", "Drop for Handler<KV>", "Handler<KV>")
R_ARC_SEM = make_seq_rule("R-arc", "Arc<Semaphore>", "std::sync::Arc<Semaphore>")
UNITS["slots"] = {
    "name": "slots",
    "header": SLOTS_HEADER,
    "derive_keep": ["Debug"],
    "specs": ["server15.spec", "shutdown.spec"],
    "parts": [
        ("raw", "prelude/slots_prelude.rs", "prelude"),
        ("raw", "lemmas/slots_lemmas.rs", "lemma"),
        ("repo", "src/net/error.rs", {"mod": "error", "only": ["enum Error"]}),
        ("raw", "lemmas/shutdown_views.rs", "lemma", {"mod": "shutdown"}),
        ("repo", "src/shutdown.rs", {"mod": "shutdown", "only": ["struct Shutdown", "impl Shutdown::fn new", "impl Shutdown::fn is_shutdown", "impl Shutdown::fn recv"]}),
        ("repo", "src/net/config.rs", {"mod": "config", "only": ["struct Config", "impl Config::fn async_server"]}),
        ("repo", "src/net/server.rs", {"mod": "server", "rules": (make_seq_rule("R-mut-self", "fn run(mut self)", "fn run(self)"),), "stub_all": True, "only": ["struct Handler", "impl Handler<KV>::fn run"]}),
        ("repo", "src/net/server.rs", {"mod": "server", "rules": (R_SLOT_GHOST, R_SLOT_NEW, R_SLOT_NEW_SIG, R_SLOT_ADDR, make_seq_rule("R-mut-self", "fn run(mut self)", "fn run(self)")), "header_rules": (R_DROP_IMPL,),
                                       "outline": {"impl Listener<KV>::fn listen": {"name": "verif_conn_task", "args": "handler", "params": "handler: Handler<KV>"}},
                                       "only": ["struct Server", "impl Server<KV,S>::fn new", "impl Server<KV,S>::fn run", "struct Listener", "impl Listener<KV>::fn accept", "impl Listener<KV>::fn listen", "impl Listener<KV>::fn verif_conn_task",
                                                "impl Drop for Handler<KV>::fn drop"]}),
    ],
    "mod_uses": {"error": "", "shutdown": "", "config": "use super::server::Server;", "server": "use std::sync::Arc;\nuse std::future::Future;\nuse super::shutdown::Shutdown;"},
    "root_uses": "pub use error::Error;\npub use config::Config;\n",
    "extern": [],
}
