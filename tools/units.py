"""Unit definitions: which prelude / lemma / repo files make up each generated Verus file."""

NET_HEADER = """#![feature(sized_hierarchy)]
#![allow(unused_imports, dead_code, unused_variables, unused_mut, unused_parens, unused_braces)]
use vstd::prelude::*;
use std::io::Cursor;
use bytes::{Buf, Bytes};

"""

from gen import make_call_rule

R_PREALLOC = make_call_rule("R-prealloc", "Vec::with_capacity", "verif_with_capacity", "Ghost(verif_prealloc_budget)")

UNITS = {
    "resp": {
        "name": "resp",
        "header": NET_HEADER,
        "specs": ["frame.spec"],
        "parts": [
            ("raw", "prelude/net_prelude.rs", "prelude"),
            ("raw", "lemmas/resp_lemmas.rs", "lemma"),
            ("repo", "src/net/frame.rs", {"rules": (R_PREALLOC,)}),
        ],
        "extern": ["bytes"],
    },
}
