"""Unit definitions: which prelude / lemma / repo files make up each generated Verus file."""

NET_HEADER = """#![feature(sized_hierarchy)]
#![allow(unused_imports, dead_code, unused_variables, unused_mut, unused_parens, unused_braces)]
use vstd::prelude::*;
use std::io::Cursor;
use bytes::{Buf, Bytes};

"""

from gen import make_call_rule, make_seq_rule, make_for_index_rule

R_PREALLOC = make_call_rule("R-prealloc", "Vec::with_capacity", "verif_with_capacity", "Ghost(verif_prealloc_budget)")

R_STD_IO = make_seq_rule("R-std-io", "std::io::", "io::")
R_FOR_ITEMS = make_for_index_rule("items")
R_DEREF_SLICE = make_seq_rule("R-deref-slice", "&self.buffer[..]", "self.buffer.verif_as_slice()")

UNITS = {
    "resp": {
        "name": "resp",
        "header": NET_HEADER,
        "specs": ["frame.spec"],
        "parts": [
            ("raw", "prelude/net_prelude.rs", "prelude"),
            ("raw", "lemmas/resp_lemmas.rs", "lemma", {"mod": "frame"}),
            ("repo", "src/net/frame.rs", {"rules": (R_PREALLOC,), "mod": "frame"}),
        ],
        "root_uses": "pub use frame::*;\n",
        "extern": ["bytes"],
    },
    "net": {
        "name": "net",
        "header": NET_HEADER,
        "specs": ["frame.spec", "connection.spec"],
        "parts": [
            ("raw", "prelude/net_prelude.rs", "prelude"),
            ("raw", "prelude/conn_prelude.rs", "prelude"),
            ("raw", "lemmas/resp_lemmas.rs", "lemma", {"mod": "frame"}),
            ("repo", "src/net/frame.rs", {"rules": (R_PREALLOC,), "mod": "frame", "stub_all": True}),
            ("raw", "lemmas/conn_lemmas.rs", "lemma", {"mod": "frame"}),
            ("repo", "src/net/error.rs", {"mod": "error", "only": ["enum Error"]}),
            ("raw", "lemmas/conn_views.rs", "lemma", {"mod": "connection"}),
            ("repo", "src/net/connection.rs", {"rules": (R_STD_IO, R_DEREF_SLICE, R_FOR_ITEMS), "mod": "connection"}),
        ],
        "mod_uses": {"connection": "use super::frame::{self, Frame};", "error": "use super::command_shim as command;"},
        "root_uses": "pub use frame::*;\npub use error::Error;\npub use connection::Connection;\n",
        "extern": ["bytes"],
    },
}
