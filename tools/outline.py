"""R-outline (pre-pass on the text of one repo file, before items are parsed):

    tokio::task::spawn_blocking(move || BODY)
 inside `fn F<G..>(PARAMS) .. where W` of an impl block becomes
    tokio::task::spawn_blocking(Self::verif_blocking(ARGS))
 and, directly after F inside the same impl block,
    fn verif_blocking<G..>(PARAMS') -> RET where W { BODY }

ARGS / PARAMS' are those parameters of F that BODY mentions (`self` is passed as `self`).  RET is supplied by the unit
configuration (keyed by "<impl header>::fn <F>"); rustc checks it when Verus compiles the generated file.  BODY is moved
verbatim, token for token, and every moved line keeps its original line number in the returned line map, so obligations
inside it are reported at the right repo line.

Why it preserves meaning for the property: tokio's spawn_blocking runs the closure exactly once on another thread and
hands its result to the awaiting task; here the closure body runs at the call site and the shim `spawn_blocking(value)`
hands the value to `.await` (or fails with a JoinError).  The closure is `move` and is the last use of what it
captures, so evaluating it in place sees the same values.  Scheduling, cancellation and panics inside the closure are
not modelled.

returns (new_text, linemap) where linemap[i] is the 1-based line of the original text for line i+1 of new_text.
"""
from rustlex import lex, match_close
from rustitems import parse_file

WS = ("ws", "lcomment", "bcomment")


def _sig(toks, lo, hi):
    return [i for i in range(lo, hi) if toks[i].kind not in WS]


def _txt(toks, a, b):
    return "".join(t.text for t in toks[a:b])


def outline(src, ret_types, log):
    toks, items = parse_file(src)
    jobs = []  # (fn item, call tokens range, body range, is_block)

    def walk(its):
        for it in its:
            if it.kind == "fn" and it.open is not None and ((it.parent is not None and it.parent.kind == "impl") or isinstance(ret_types.get(it.path()), dict)):
                s = _sig(toks, it.open, it.end)
                want = ["tokio", "::", "task", "::", "spawn_blocking", "(", "move", "|", "|"]
                for n in range(len(s) - len(want)):
                    if all(toks[s[n + k]].text == want[k] for k in range(len(want))):
                        op = s[n + 5]
                        cl = match_close(toks, op)
                        b0 = s[n + len(want)]
                        jobs.append((it, s[n + 6], b0, cl))
                    elif all(toks[s[n + k]].text == w for k, w in enumerate(want[:6])) and toks[s[n + 6]].text == "move" and toks[s[n + 7]].text == "||":
                        op = s[n + 5]
                        cl = match_close(toks, op)
                        jobs.append((it, s[n + 6], s[n + 8], cl))
                want2 = ["tokio", "::", "spawn", "(", "async", "move", "{"]
                for n in range(len(s) - len(want2)):
                    if all(toks[s[n + k]].text == want2[k] for k in range(len(want2))) and isinstance(ret_types.get(it.path()), dict):
                        op = s[n + 3]
                        cl = match_close(toks, op)
                        jobs.append((it, s[n + 4], s[n + 6], cl))
            walk(it.children)
    walk(items)
    if not jobs:
        return src, list(range(1, src.count("\n") + 2))
    # line of each token
    line = 1
    tline = []
    for t in toks:
        tline.append(line)
        line += t.text.count("\n")
    out = []      # (text, origline or None)
    pos = 0

    def emit(a, b):
        for k in range(a, b):
            if k in pending_after and k not in flushed:
                # an outlined fn goes directly after the fn it was taken from
                out.extend(pending_after[k])
                flushed.add(k)
            out.append((toks[k].text, tline[k]))

    by_fn = {}
    for j in jobs:
        by_fn.setdefault(id(j[0]), []).append(j)
    order = sorted(jobs, key=lambda j: j[1])
    pending_after = {}  # token index (fn end) -> text segments
    flushed = set()
    for it, mv, b0, cl in order:
        key = it.path()
        if key not in ret_types:
            raise ValueError("R-outline: no return type configured for the closure in %s" % key)
        if isinstance(ret_types[key], dict) and ret_types[key].get("kind") == "blocking":
            # tokio::task::spawn_blocking(move || BODY) inside a free fn -> spawn_blocking(NAME(ARGS)) + fn NAME(PARAMS) -> RET { BODY }
            cfg = ret_types[key]
            e = cl - 1
            while toks[e].kind in WS:
                e -= 1
            is_block = toks[b0].text == "{" and match_close(toks, b0) == e
            emit(pos, mv)
            out.append(("%s(%s)" % (cfg["name"], cfg["args"]), tline[mv]))
            pos = cl
            seg = [("\nfn %s(%s) -> %s\n" % (cfg["name"], cfg["params"], cfg["ret"]), None)]
            if not is_block:
                seg.append(("{\n    ", None))
            for k in range(b0, e + 1):
                seg.append((toks[k].text, tline[k]))
            if not is_block:
                seg.append(("\n}", None))
            seg.append(("\n", None))
            pending_after.setdefault(it.end, []).extend(seg)
            log("R-outline: closure of spawn_blocking in %s -> fn %s(%s)" % (key, cfg["name"], cfg["args"]))
            continue
        if isinstance(ret_types[key], dict):
            # tokio::spawn(async move { BODY })  ->  tokio::spawn(Self::NAME(ARGS))  +  async fn NAME(PARAMS) { BODY }
            cfg = ret_types[key]
            e = cl - 1
            while toks[e].kind in WS:
                e -= 1
            emit(pos, mv)
            out.append(("Self::%s(%s)" % (cfg["name"], cfg["args"]), tline[mv]))
            pos = cl
            seg = [("\n    async fn %s(%s) -> %s\n    " % (cfg["name"], cfg["params"], cfg.get("ret", "()")), None)]
            for k in range(b0, e + 1):
                seg.append((toks[k].text, tline[k]))
            seg.append(("\n", None))
            pending_after.setdefault(it.end, []).extend(seg)
            log("R-outline: async block of tokio::spawn in %s -> async fn %s(%s)" % (key, cfg["name"], cfg["args"]))
            continue
        # parameters of F
        s = _sig(toks, it.kw, it.open)
        p_open = next(i for i in s if toks[i].text == "(")
        p_close = match_close(toks, p_open)
        # generics between name and '('
        name_i = s[1]
        generics = _txt(toks, name_i + 1, p_open).strip()
        # where clause
        w_i = next((i for i in s if toks[i].text == "where" and i > p_close), None)
        where = _txt(toks, w_i, it.open).strip() if w_i is not None else ""
        # split params at top-level commas
        params = []
        depth = 0
        cur = []
        for i in range(p_open + 1, p_close):
            t = toks[i]
            if t.text in ("(", "[", "{", "<"):
                depth += 1
            elif t.text in (")", "]", "}", ">"):
                depth -= 1
            if t.text == "," and depth == 0:
                params.append("".join(cur).strip())
                cur = []
            else:
                cur.append(t.text)
        if "".join(cur).strip():
            params.append("".join(cur).strip())
        body_ids = {toks[i].text for i in range(b0, cl) if toks[i].kind == "id"}
        used = []
        for p in params:
            nm = p.split(":")[0].replace("mut ", "").replace("&", "").strip()
            if nm in body_ids:
                used.append((nm, p))
        args = ", ".join(nm for nm, _ in used)
        plist = ", ".join(p for _, p in used)
        # body end: last significant token before cl
        e = cl - 1
        while toks[e].kind in WS:
            e -= 1
        is_block = toks[b0].text == "{" and match_close(toks, b0) == e
        emit(pos, mv)
        out.append(("Self::verif_blocking(%s)" % args, tline[mv]))
        pos = cl
        seg = [("\n    fn verif_blocking%s(%s) -> %s\n    %s\n    " % (generics, plist, ret_types[key], where), None)]
        if not is_block:
            seg.append(("{\n        ", None))
        for k in range(b0, e + 1):
            seg.append((toks[k].text, tline[k]))
        if not is_block:
            seg.append(("\n    }", None))
        seg.append(("\n", None))
        pending_after.setdefault(it.end, []).extend(seg)
        log("R-outline: closure of spawn_blocking in %s -> fn verif_blocking(%s)" % (key, args))
    # flush the rest, inserting outlined fns after their enclosing fn
    emit(pos, len(toks))
    for endi in sorted(pending_after):
        if endi not in flushed:      # fn ends at the very end of the file
            out.extend(pending_after[endi])
            flushed.add(endi)
    # build text + line map
    text = "".join(t for t, _ in out)
    linemap = []
    cur_line_orig = None
    last = 1
    buf_orig = None
    for t, o in out:
        parts = t.split("\n")
        for k, p in enumerate(parts):
            if k > 0:
                linemap.append(buf_orig if buf_orig is not None else last)
                if buf_orig is not None:
                    last = buf_orig
                buf_orig = None
            if p.strip() and o is not None and buf_orig is None:
                buf_orig = o + k
    linemap.append(buf_orig if buf_orig is not None else last)
    return text, linemap


def select_rewrite(src, log):
    """R-select (pre-pass):  tokio::select! { P1 = F1 => E1, P2 = F2 => E2 }
         ->  match verif_select(2) { 0 => { let P1 = F1.await; E1 } _ => { let P2 = F2.await; E2 } }
    select! polls the futures concurrently, runs the arm of the first one that completes and drops the others.
    The rewrite reads this as a nondeterministic choice of ONE future that runs to completion while the others never
    start: effects of a future that was polled and then dropped are not modelled (for Handler::run the other arm
    returns from the function, so nothing the dropped read_frame did is observable afterwards).
    Only whitespace-free token edits: line numbers are unchanged."""
    toks = lex(src)
    s = _sig(toks, 0, len(toks))
    repl = {}    # token idx -> new text
    ins_before = {}
    ins_after = {}
    n = 0
    while n + 5 < len(s):
        if [toks[s[n + k]].text for k in range(5)] == ["tokio", "::", "select", "!", "{"]:
            op = s[n + 4]
            cl = match_close(toks, op)
            # split arms at depth 0
            inner = _sig(toks, op + 1, cl)
            arms = []
            k = 0
            while k < len(inner):
                a0 = inner[k]
                # pattern up to first '=' (not '=>', '==')
                e = k
                while toks[inner[e]].text != "=":
                    e += 1
                # future up to '=>' at depth 0
                f = e + 1
                while toks[inner[f]].text != "=>":
                    if toks[inner[f]].text in ("(", "[", "{"):
                        f = inner.index(match_close(toks, inner[f]))
                    f += 1
                b = f + 1
                if toks[inner[b]].text == "{":
                    bend = inner.index(match_close(toks, inner[b]))
                    nxt = bend + 1
                    if nxt < len(inner) and toks[inner[nxt]].text == ",":
                        nxt += 1
                else:
                    bend = b
                    while bend < len(inner) and toks[inner[bend]].text != ",":
                        if toks[inner[bend]].text in ("(", "[", "{"):
                            bend = inner.index(match_close(toks, inner[bend]))
                        bend += 1
                    nxt = bend + 1 if bend < len(inner) else bend
                    bend -= 1
                arms.append((a0, inner[e], inner[f], inner[b], inner[bend], inner[nxt - 1] if nxt - 1 < len(inner) and toks[inner[nxt - 1]].text == "," else None))
                k = nxt
            for j in range(4):
                repl[s[n + j]] = ""
            repl[s[n]] = "match verif_select(%d)" % len(arms)
            for idx, (a0, eq, arrow, b0, bend, comma) in enumerate(arms):
                label = str(idx) if idx + 1 < len(arms) else "_"
                ins_before[a0] = "%s => { let " % label
                repl[arrow] = ".await;"
                ins_after[bend] = " }"
                if comma is not None:
                    repl[comma] = ""
            log("R-select: tokio::select! with %d arms -> nondeterministic choice of one arm" % len(arms))
            n = s.index(cl) if cl in s else n + 5
        n += 1
    out = []
    for i, t in enumerate(toks):
        if i in ins_before:
            out.append(ins_before[i])
        out.append(repl.get(i, t.text))
        if i in ins_after:
            out.append(ins_after[i])
    text = "".join(out)
    assert text.count("\n") == src.count("\n")
    return text
