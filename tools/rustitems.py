"""Item-level parser on top of rustlex: finds fns, structs, enums, impls, traits, mods, uses, consts
(with their attributes) and nests the members of impl / trait / mod blocks."""
from rustlex import lex, sig, match_close, text, OPEN

ITEM_KW = {"fn", "struct", "enum", "union", "impl", "trait", "mod", "use", "type", "const", "static",
           "macro_rules", "extern"}
QUALS = {"pub", "async", "unsafe", "default", "const", "extern"}


class Item:
    def __init__(self):
        self.kind = None        # fn struct enum impl trait mod use type const static macro
        self.name = None        # identifier, or normalised impl header
        self.attrs = []         # list of attribute texts, e.g. '#[derive(Debug)]'
        self.a0 = None          # token index of first attribute (or of first token if none)
        self.k0 = None          # token index of first non-attribute token (vis / qualifier / keyword)
        self.kw = None          # token index of the item keyword
        self.open = None        # token index of the body/braces opener, or None
        self.end = None         # token index one past the last token of the item
        self.children = []
        self.parent = None
        self.is_test = False

    def path(self):
        me = "%s %s" % (self.kind, self.name)
        return me if self.parent is None else self.parent.path() + "::" + me

    def __repr__(self):
        return "<Item %s>" % self.path()


def parse_file(src):
    toks = lex(src)
    items = _parse_block(toks, 0, len(toks), None)
    return toks, items


def _skip_attr(toks, i):
    # toks[i] is '#'; return (index after the attribute, attribute text)
    j = i + 1
    while toks[j].kind in ("ws", "lcomment", "bcomment"):
        j += 1
    if toks[j].text == "!":
        j += 1
        while toks[j].kind in ("ws", "lcomment", "bcomment"):
            j += 1
    assert toks[j].text == "[", "malformed attribute"
    e = match_close(toks, j)
    return e + 1, text(toks, i, e + 1)


def _next_sig(toks, i, hi):
    while i < hi and toks[i].kind in ("ws", "lcomment", "bcomment"):
        i += 1
    return i


def _parse_block(toks, lo, hi, parent):
    items = []
    i = _next_sig(toks, lo, hi)
    while i < hi:
        it = Item()
        it.parent = parent
        it.a0 = i
        # attributes
        while i < hi and toks[i].text == "#":
            i, a = _skip_attr(toks, i)
            it.attrs.append(a)
            i = _next_sig(toks, i, hi)
        if i >= hi:
            break
        it.k0 = i
        # visibility and qualifiers
        while i < hi:
            t = toks[i]
            if t.kind == "id" and t.text == "pub":
                i = _next_sig(toks, i + 1, hi)
                if toks[i].text == "(":
                    i = _next_sig(toks, match_close(toks, i) + 1, hi)
                continue
            if t.kind == "id" and t.text in ("async", "unsafe", "default"):
                i = _next_sig(toks, i + 1, hi)
                continue
            if t.kind == "id" and t.text == "const":
                j = _next_sig(toks, i + 1, hi)
                if toks[j].text in ("fn", "unsafe", "async", "extern"):
                    i = j
                    continue
                break
            if t.kind == "id" and t.text == "extern":
                j = _next_sig(toks, i + 1, hi)
                if toks[j].kind == "str":
                    j = _next_sig(toks, j + 1, hi)
                if toks[j].text == "fn":
                    i = j
                    continue
                break
            break
        t = toks[i]
        it.kw = i
        if t.kind == "id" and t.text == "fn":
            it.kind = "fn"
            j = _next_sig(toks, i + 1, hi)
            it.name = toks[j].text
            j = _scan_to(toks, j, hi, ("{", ";"))
            if toks[j].text == "{":
                it.open = j
                it.end = match_close(toks, j) + 1
            else:
                it.end = j + 1
        elif t.kind == "id" and t.text in ("struct", "union"):
            it.kind = "struct"
            j = _next_sig(toks, i + 1, hi)
            it.name = toks[j].text
            j = _scan_to(toks, j, hi, ("{", ";", "("))
            if toks[j].text == "(":
                j = _scan_to(toks, match_close(toks, j) + 1, hi, (";",))
                it.end = j + 1
            elif toks[j].text == "{":
                it.open = j
                it.end = match_close(toks, j) + 1
            else:
                it.end = j + 1
        elif t.kind == "id" and t.text in ("enum", "trait", "mod"):
            it.kind = t.text
            j = _next_sig(toks, i + 1, hi)
            it.name = toks[j].text
            j = _scan_to(toks, j, hi, ("{", ";"))
            if toks[j].text == "{":
                it.open = j
                e = match_close(toks, j)
                it.end = e + 1
                if it.kind in ("trait", "mod"):
                    it.children = _parse_block(toks, j + 1, e, it)
            else:
                it.end = j + 1
        elif t.kind == "id" and t.text == "impl":
            it.kind = "impl"
            j = _scan_to(toks, i + 1, hi, ("{",), angle=True)
            it.open = j
            it.name = _impl_name(toks, i + 1, j)
            e = match_close(toks, j)
            it.end = e + 1
            it.children = _parse_block(toks, j + 1, e, it)
        elif t.kind == "id" and t.text in ("use", "type", "const", "static", "extern"):
            it.kind = t.text
            j = _next_sig(toks, i + 1, hi)
            if t.text in ("static",) and toks[j].text == "mut":
                j = _next_sig(toks, j + 1, hi)
            it.name = toks[j].text if t.text != "use" else None
            j = _scan_to(toks, i, hi, (";",), braces=True)
            if t.text == "use":
                it.name = text(toks, _next_sig(toks, i + 1, hi), j).strip()
            it.end = j + 1
        elif t.kind == "id":
            # macro invocation item: name ! { .. }   or name ! ( .. ) ;
            it.kind = "macro"
            it.name = t.text
            j = _next_sig(toks, i + 1, hi)
            if toks[j].text != "!":
                raise ValueError("cannot parse item at byte %d: %r" % (t.start, text(toks, i, i + 8)))
            j = _next_sig(toks, j + 1, hi)
            if toks[j].kind == "id":  # macro_rules! name
                j = _next_sig(toks, j + 1, hi)
            e = match_close(toks, j)
            it.end = e + 1
            k = _next_sig(toks, e + 1, hi)
            if k < hi and toks[k].text == ";":
                it.end = k + 1
        else:
            raise ValueError("cannot parse item at byte %d: %r" % (t.start, text(toks, i, i + 8)))
        it.is_test = any("cfg(test)" in a.replace(" ", "") for a in it.attrs) or (parent is not None and parent.is_test)
        items.append(it)
        i = _next_sig(toks, it.end, hi)
    return items


def _scan_to(toks, i, hi, stops, angle=False, braces=False):
    """Advance to the first token whose text is in `stops` at bracket depth 0 (parens / brackets,
    and braces when braces=True, are skipped as groups)."""
    while i < hi:
        t = toks[i]
        if t.kind == "punct":
            if t.text in stops:
                return i
            if t.text in ("(", "[") or (braces and t.text == "{"):
                i = match_close(toks, i) + 1
                continue
        i += 1
    raise ValueError("scan_to ran off the end")


def _impl_name(toks, lo, hi):
    s = [toks[k] for k in range(lo, hi) if toks[k].kind not in ("ws", "lcomment", "bcomment")]
    # drop leading generic parameter list
    k = 0
    if s and s[0].text == "<":
        depth = 0
        while k < len(s):
            if s[k].text == "<":
                depth += 1
            elif s[k].text == ">":
                depth -= 1
                if depth == 0:
                    k += 1
                    break
            elif s[k].text == ">>":
                depth -= 2
                if depth <= 0:
                    k += 1
                    break
            k += 1
    out = []
    for t in s[k:]:
        if t.kind == "id" and t.text == "where":
            break
        if t.kind == "id" and t.text == "for":
            out.append(" for ")
        else:
            out.append(t.text)
    return "".join(out)


def walk(items):
    for it in items:
        yield it
        for c in walk(it.children):
            yield c


def find(items, path):
    """path like 'fn get_integer' or 'impl Frame::fn parse'."""
    for it in walk(items):
        if it.path() == path:
            return it
    return None
