"""Record the trusted constructs currently present in each generated unit as the allow list.
Run by hand after reviewing a prelude change; never by a check."""
import json, os, sys
sys.path.insert(0, os.path.dirname(os.path.abspath(__file__)))
VERIF = os.path.dirname(os.path.dirname(os.path.abspath(__file__)))
sys.path.insert(0, VERIF)
import importlib.machinery, importlib.util
loader = importlib.machinery.SourceFileLoader("check_mod", os.path.join(VERIF, "check"))
spec = importlib.util.spec_from_loader("check_mod", loader)
check_mod = importlib.util.module_from_spec(spec)
loader.exec_module(check_mod)
import units, gen, verus_run
p = os.path.join(VERIF, "contracts", "trust_allow.json")
allow = json.load(open(p)) if os.path.exists(p) else {}
kfp = os.path.join(VERIF, "contracts", "known_functions.json")
known = json.load(open(kfp)) if os.path.exists(kfp) else {}
pp = os.path.join(VERIF, "contracts", "stub_pins.json")
pins = json.load(open(pp)) if os.path.exists(pp) else {}
for u in (sys.argv[1:] or list(units.UNITS)):
    meta = gen.generate(units.UNITS[u], verus_run.GEN_DIR)
    known[u] = sorted("%s::%s" % (f["file"], f["path"]) for f in meta["functions"])
    for f in meta["functions"]:
        if f.get("stub_sha"):
            pins["%s::%s" % (f["file"], f["path"])] = f["stub_sha"]
    found, outside = check_mod.trust_scan(u)
    if outside:
        print("WARNING trusted constructs outside the prelude in", u, outside)
    allow[u] = found
    print(u, found)
json.dump(allow, open(p, "w"), indent=1, sort_keys=True)
json.dump(pins, open(pp, "w"), indent=1, sort_keys=True)
print("stub pins:", pins)
json.dump(known, open(kfp, "w"), indent=1, sort_keys=True)
