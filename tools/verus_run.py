"""Run Verus on a generated unit and turn its diagnostics into named obligations."""
import json
import os
import subprocess
import sys
import time
import glob

sys.path.insert(0, os.path.dirname(os.path.abspath(__file__)))
import gen  # noqa: E402
import units  # noqa: E402

VERIF = gen.VERIF
GEN_DIR = os.environ.get("VERIF_GEN_DIR") or os.path.join(VERIF, "build", "gen")
DEPS = os.path.join(VERIF, "build", "verus-deps", "debug", "deps")


def verus_cmd(unit, path, rlimit, extra=()):
    cmd = ["verus", path, "--error-format=json", "--output-json", "--time", "--multiple-errors", "8",
           "--rlimit", str(rlimit), "--num-threads", str(unit.get("threads", 8))]
    for ext in unit.get("extern", []):
        libs = sorted(glob.glob(os.path.join(DEPS, "lib%s-*.rlib" % ext)))
        if not libs:
            # self-heal: the dependency build is a pure function of deps/verus-deps (offline); run it once
            subprocess.run(["sh", os.path.join(os.path.dirname(os.path.dirname(os.path.abspath(__file__))), "setup.sh")],
                           stdout=subprocess.DEVNULL, stderr=subprocess.DEVNULL)
            libs = sorted(glob.glob(os.path.join(DEPS, "lib%s-*.rlib" % ext)))
        if not libs:
            raise RuntimeError("missing rlib for %s; run ./setup.sh" % ext)
        cmd += ["--extern", "%s=%s" % (ext, libs[0])]
    if unit.get("extern"):
        cmd += ["-L", "dependency=" + DEPS]
    cmd += list(extra)
    return cmd


def _fn_of_line(linemap, line):
    if 1 <= line <= len(linemap):
        o = linemap[line - 1]
        if o:
            return o
    return None


def classify(diag, linemap):
    """-> dict(fn, label, kind, message, repo=(file,line)|None, spec=(file,line)|None, lines=[...])"""
    spans = diag.get("spans", [])
    prim = [s for s in spans if s.get("is_primary")] or spans
    msg = diag.get("message", "")
    res = {"message": msg, "fn": None, "label": None, "aux": False, "repo": None, "spec": None,
           "gen_lines": [s["line_start"] for s in spans], "origin_kind": None, "tags": []}
    if not spans:
        return res
    p = prim[0]
    po = _fn_of_line(linemap, p["line_start"])
    if po:
        res["fn"] = po.get("fn")
        res["origin_kind"] = po.get("o")
    # label: prefer a span whose origin carries a label (the violated clause)
    for s in spans:
        o = _fn_of_line(linemap, s["line_start"])
        if not o:
            continue
        if o.get("label") and res["label"] is None:
            res["label"] = o["label"]
            res["tags"] = o.get("tags", [])
            res["aux"] = o.get("kind") in ("loop", "closure", "hint", "entry")
            res["spec"] = (o.get("f"), o.get("l"))
        if o.get("o") == "repo" and res["repo"] is None:
            res["repo"] = (o.get("f"), o.get("l"))
        if o.get("o") == "spec" and res["spec"] is None:
            res["spec"] = (o.get("f"), o.get("l"))
        if res["fn"] is None and o.get("fn"):
            res["fn"] = o.get("fn")
    # a precondition failure happens in the *caller* (primary span = call site)
    res["text"] = (p.get("text") or [{}])[0].get("text", "").strip()
    return res


def run(unit_name, rlimit=20, outdir=GEN_DIR, extra=(), quiet=True):
    unit = units.UNITS[unit_name]
    t0 = time.time()
    try:
        meta = gen.generate(unit, outdir)
    except Exception as e:  # generation failure = undecided
        return {"unit": unit_name, "status": "gen-error", "error": "%s: %s" % (type(e).__name__, e), "wall_s": time.time() - t0}
    path = os.path.join(outdir, unit_name + ".rs")
    cmd = verus_cmd(unit, path, rlimit, extra)
    env = dict(os.environ)
    p = subprocess.run(cmd, stdout=subprocess.PIPE, stderr=subprocess.PIPE, text=True, env=env, cwd=VERIF)
    wall = time.time() - t0
    diags = []
    raw_err = []
    for line in p.stderr.splitlines():
        line = line.strip()
        if not line.startswith("{"):
            if line:
                raw_err.append(line)
            continue
        try:
            d = json.loads(line)
        except ValueError:
            raw_err.append(line)
            continue
        if d.get("$message_type") == "diagnostic":
            diags.append(d)
    try:
        out = json.loads(p.stdout)
    except ValueError:
        out = {}
    vr = out.get("verification-results", {})
    breakdown = []
    try:
        for m in out["times-ms"]["smt"]["smt-run-module-times"]:
            breakdown += m.get("function-breakdown", [])
    except (KeyError, TypeError):
        pass
    linemap = meta["linemap"]
    errors = []
    for d in diags:
        if d.get("level") == "error":
            c = classify(d, linemap)
            c["rendered"] = d.get("rendered", "")
            errors.append(c)
    # the trailing "aborting due to N previous errors" has no spans
    hard = [e for e in errors if not e["gen_lines"] and not e["message"].startswith("aborting due to")]
    errors = [e for e in errors if e["gen_lines"]]
    # front-end (rustc / VIR) errors: verification did not run
    frontend = (not vr) or vr.get("encountered-vir-error") or (p.returncode != 0 and not breakdown)
    res = {
        "unit": unit_name,
        "status": "frontend-error" if frontend else "ok",
        "cmd": " ".join(cmd),
        "returncode": p.returncode,
        "verified": vr.get("verified"),
        "verus_errors": vr.get("errors"),
        "errors": errors,
        "hard_errors": [e["message"] for e in hard],
        "raw_stderr": raw_err[:20],
        "breakdown": breakdown,
        "meta": meta,
        "wall_s": wall,
        "smt_ms": (out.get("times-ms", {}).get("smt", {}) or {}).get("total"),
        "verus_version": (out.get("verus", {}) or {}).get("version"),
        "rendered": [d.get("rendered", "") for d in diags if d.get("level") == "error"],
    }
    return res


def summarize(res, show_canary=False, out=sys.stdout):
    if res["status"] == "gen-error":
        print("GENERATION ERROR:", res["error"], file=out)
        return
    print("unit %s: status=%s verified=%s errors=%s wall=%.1fs smt=%sms" % (
        res["unit"], res["status"], res["verified"], res["verus_errors"], res["wall_s"], res["smt_ms"]), file=out)
    for l in res["meta"]["lost_anchors"]:
        print("  LOST ANCHOR", l, file=out)
    for l in res["meta"]["missing_items"]:
        print("  MISSING ITEM", l, file=out)
    for h in res["hard_errors"]:
        print("  HARD:", h[:300], file=out)
    for e in res["errors"]:
        fn = e["fn"] or "?"
        if fn.endswith("#canary") and not show_canary:
            continue
        print("  FAIL fn=%s label=%s msg=%s\n       gen=%s repo=%s spec=%s\n       text=%s" % (
            fn, e["label"], e["message"][:100], e["gen_lines"], e["repo"], e["spec"], e["text"][:140]), file=out)
    slow = sorted(res["breakdown"], key=lambda b: -b.get("time", 0))[:5]
    print("  slowest:", ", ".join("%s=%dms" % (b["function"].split("::", 1)[-1], b["time"]) for b in slow), file=out)
    cans = [b for b in res["breakdown"] if b["function"].endswith("__canary")]
    bad = [b["function"] for b in cans if b.get("success")]
    print("  canaries: %d, vacuous: %s" % (len(cans), bad), file=out)


if __name__ == "__main__":
    r = run(sys.argv[1], rlimit=int(os.environ.get("RLIMIT", "20")))
    summarize(r, show_canary="--canary" in sys.argv)
    for a in sys.argv:
        if a.startswith("--fn="):
            for e in r["errors"]:
                if e["fn"] and e["fn"].endswith(a[5:]):
                    print(e["rendered"])
    if r["status"] == "frontend-error":
        for x in r.get("rendered", [])[:6]:
            print(x)
        for x in r.get("raw_stderr", [])[:10]:
            print(x)
