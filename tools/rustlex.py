"""Minimal Rust tokenizer: enough to match braces, find items, loops, closures and token
sequences without being fooled by strings, chars, lifetimes or comments.

Token = (kind, text, start, end) with kind in
  ws, lcomment, bcomment, str, char, life, num, id, punct
Every byte of the input belongs to exactly one token, so ''.join(t.text) == src.
"""
from collections import namedtuple

Tok = namedtuple("Tok", "kind text start end")

_ID_START = set("abcdefghijklmnopqrstuvwxyzABCDEFGHIJKLMNOPQRSTUVWXYZ_")
_ID_CONT = _ID_START | set("0123456789")
_DIGITS = set("0123456789")

# multi-char punctuation that must be kept together for our purposes
_PUNCT3 = ("..=", "<<=", ">>=", "...")
_PUNCT2 = ("::", "->", "=>", "==", "!=", "<=", ">=", "&&", "||", "+=", "-=", "*=", "/=",
           "%=", "^=", "&=", "|=", "<<", ">>", "..")


def lex(src):
    toks = []
    i, n = 0, len(src)
    while i < n:
        c = src[i]
        s = i
        if c in " \t\r\n":
            while i < n and src[i] in " \t\r\n":
                i += 1
            toks.append(Tok("ws", src[s:i], s, i))
        elif src.startswith("//", i):
            while i < n and src[i] != "\n":
                i += 1
            toks.append(Tok("lcomment", src[s:i], s, i))
        elif src.startswith("/*", i):
            depth = 0
            while i < n:
                if src.startswith("/*", i):
                    depth += 1
                    i += 2
                elif src.startswith("*/", i):
                    depth -= 1
                    i += 2
                    if depth == 0:
                        break
                else:
                    i += 1
            toks.append(Tok("bcomment", src[s:i], s, i))
        elif c == '"' or (c == "b" and src.startswith('b"', i)):
            i += 2 if c == "b" else 1
            while i < n and src[i] != '"':
                i += 2 if src[i] == "\\" else 1
            i += 1
            toks.append(Tok("str", src[s:i], s, i))
        elif (c == "r" and _raw_start(src, i)) or (c == "b" and src.startswith("br", i) and _raw_start(src, i + 1)):
            j = i + (2 if c == "b" else 1)
            hashes = 0
            while src[j] == "#":
                hashes += 1
                j += 1
            j += 1  # opening quote
            close = '"' + "#" * hashes
            k = src.index(close, j)
            i = k + len(close)
            toks.append(Tok("str", src[s:i], s, i))
        elif c == "'" or (c == "b" and src.startswith("b'", i)):
            j = i + (2 if c == "b" else 1)
            # char literal: '\x' ... ' or 'c' ; lifetime: 'ident (no closing quote right after one char)
            if j < n and src[j] == "\\":
                k = j + 2
                while k < n and src[k] != "'":
                    k += 1
                i = k + 1
                toks.append(Tok("char", src[s:i], s, i))
            elif j + 1 < n and src[j + 1] == "'" and src[j] != "'":
                i = j + 2
                toks.append(Tok("char", src[s:i], s, i))
            elif c == "'" and j < n and src[j] in _ID_START:
                k = j
                while k < n and src[k] in _ID_CONT:
                    k += 1
                i = k
                toks.append(Tok("life", src[s:i], s, i))
            else:
                # multi-byte char literal such as 'é'
                k = src.index("'", j)
                i = k + 1
                toks.append(Tok("char", src[s:i], s, i))
        elif c in _ID_START:
            while i < n and src[i] in _ID_CONT:
                i += 1
            toks.append(Tok("id", src[s:i], s, i))
        elif c in _DIGITS:
            while i < n and (src[i] in _ID_CONT or (src[i] == "." and i + 1 < n and src[i + 1] in _DIGITS
                                                     and not src.startswith("..", i))):
                i += 1
            toks.append(Tok("num", src[s:i], s, i))
        else:
            for p in _PUNCT3:
                if src.startswith(p, i):
                    i += 3
                    break
            else:
                for p in _PUNCT2:
                    if src.startswith(p, i):
                        i += 2
                        break
                else:
                    i += 1
            toks.append(Tok("punct", src[s:i], s, i))
    return toks


def _raw_start(src, i):
    # src[i] == 'r'; raw string if followed by #* and a quote
    j = i + 1
    while j < len(src) and src[j] == "#":
        j += 1
    return j < len(src) and src[j] == '"' and (i == 0 or src[i - 1] not in _ID_CONT)


def sig(toks):
    """Indices of significant tokens (no whitespace / comments)."""
    return [i for i, t in enumerate(toks) if t.kind not in ("ws", "lcomment", "bcomment")]


OPEN = {"(": ")", "[": "]", "{": "}"}
CLOSE = {")": "(", "]": "[", "}": "{"}


def match_close(toks, i):
    """toks[i] is an opening bracket; return the index of its matching closer."""
    depth = 0
    for j in range(i, len(toks)):
        t = toks[j]
        if t.kind != "punct":
            continue
        if t.text in OPEN:
            depth += 1
        elif t.text in CLOSE:
            depth -= 1
            if depth == 0:
                return j
    raise ValueError("unbalanced bracket at byte %d" % toks[i].start)


def text(toks, a=0, b=None):
    return "".join(t.text for t in toks[a:b])
