#!/bin/bash
# usage: benign_eval.sh [pattern]   -- runs the quick check of every claimed property against a scratch copy of /repo with each
# behaviour-preserving refactor of benign/ applied: every run must exit 0 (no alarm).  Works from a snapshot of /verif so that
# /verif can be edited meanwhile.
PAT=${1:-*}
SNAP=$(mktemp -d /tmp/verif_snap.XXXX); rsync -a --exclude build --exclude .git /verif/ $SNAP/
mkdir -p $SNAP/build; ln -s /verif/build/verus-deps $SNAP/build/verus-deps
cd $SNAP
ALL=$(python3 -c "import json; print(' '.join(c['property_id'] for c in json.load(open('MANIFEST.json'))['checks']))")
for f in benign/$PAT.diff; do
  n=$(basename $f .diff)
  S=$(mktemp -d /tmp/benign_scratch.XXXX)
  rsync -a --exclude target --exclude .git /repo/ $S/repo/
  (cd $S/repo && patch -p1 -s < $SNAP/$f) || { echo "$n PATCH-FAILED"; rm -rf $S; continue; }
  for p in $ALL; do
    out=$(VERIF_REPO=$S/repo VERIF_GEN_DIR=$S/gen VERIF_EVIDENCE_DIR=$S/ev VERIF_REPLAY_DIR=$S/rp ./check $p 2>&1); code=$?
    echo "$n $p exit=$code $(echo "$out" | tail -1 | cut -c1-200)"
  done
  rm -rf $S
done
rm -rf $SNAP
