"""Concrete-input search on the real code, used after a Verus obligation failed."""
import json
import os
import shutil
import subprocess

VERIF = os.path.dirname(os.path.dirname(os.path.abspath(__file__)))
REPO = os.environ.get("VERIF_REPO", "/repo")
import hashlib
BUILD = os.path.join(VERIF, "build", "replayer" if REPO == "/repo" else "replayer-" + hashlib.sha1(REPO.encode()).hexdigest()[:8])
TARGET = os.path.join(VERIF, "build", "replayer-target")


def _cleanup_scratch_build():
    # build directories of scratch trees (strength audit, seed evaluation) are only needed while this process runs
    if REPO != "/repo":
        shutil.rmtree(BUILD, ignore_errors=True)


def build():
    import atexit
    if not getattr(build, "_registered", False):
        atexit.register(_cleanup_scratch_build)
        build._registered = True
    os.makedirs(os.path.join(BUILD, "src"), exist_ok=True)
    t = open(os.path.join(VERIF, "replayer", "Cargo.toml.in")).read().replace("@REPO@", REPO)
    open(os.path.join(BUILD, "Cargo.toml"), "w").write(t)
    shutil.copy(os.path.join(VERIF, "replayer", "src", "main.rs"), os.path.join(BUILD, "src", "main.rs"))
    shutil.copy(os.path.join(REPO, "Cargo.lock"), os.path.join(BUILD, "Cargo.lock"))
    env = dict(os.environ, CARGO_NET_OFFLINE="true", CARGO_TARGET_DIR=TARGET)
    # the target directory (and with it the compiled dependencies) is shared between working trees; checks that run at the same
    # time against different trees must not run each other's binary, so build + copy happen under one lock and the copy is used
    import fcntl
    os.makedirs(TARGET, exist_ok=True)
    with open(os.path.join(TARGET, ".verif-build-lock"), "w") as lk:
        fcntl.flock(lk, fcntl.LOCK_EX)
        import time as _time
        t_start = _time.time() - 1
        p = subprocess.run(["cargo", "build", "--offline", "--quiet"], cwd=BUILD, env=env,
                           stdout=subprocess.PIPE, stderr=subprocess.STDOUT, text=True)
        if p.returncode != 0:
            raise RuntimeError("replayer build failed: " + p.stdout[-800:])
        out = os.path.join(BUILD, "replayer-bin")
        shutil.copy2(os.path.join(TARGET, "debug", "replayer"), out + ".new")
        os.replace(out + ".new", out)
        if REPO != "/repo":
            # what this build added for the scratch tree (its own copy of the crate, the replayer linked against it, incremental
            # state) is of no use to any later build: remove it, still under the lock, so that the shared directory does not grow
            dbg = os.path.join(TARGET, "debug")
            for sub in ("deps", "incremental", ".fingerprint"):
                d = os.path.join(dbg, sub)
                if not os.path.isdir(d):
                    continue
                for f in os.listdir(d):
                    if ("bitcask" in f or "replayer" in f) and os.path.getmtime(os.path.join(d, f)) >= t_start:
                        q = os.path.join(d, f)
                        shutil.rmtree(q, ignore_errors=True) if os.path.isdir(q) else os.unlink(q)
    return out


def _run(binary, args, timeout=300, prop=None):
    env = dict(os.environ)
    if prop:
        env["VERIF_PROP"] = prop
    try:
        p = subprocess.run([binary] + args, stdout=subprocess.PIPE, stderr=subprocess.PIPE, text=True, timeout=timeout, env=env)
    except subprocess.TimeoutExpired as e:
        # a scenario that does not finish is reported as what it is; the caller decides whether that contradicts the property
        out = (e.stdout or b"").decode(errors="replace") if isinstance(e.stdout, bytes) else (e.stdout or "")
        line = json.dumps({"found": True, "kind": "hang", "props": "C01,C04,C20,C10,C16", "history": " ".join(args),
                           "observed": "the scenario `%s` did not finish within %d s" % (" ".join(args), timeout), "expected": "it finishes (normally within seconds)"})
        return subprocess.CompletedProcess([binary] + args, 0, out + "\n" + line + "\n", "timeout")
    return p


def search(pid, record):
    binary = build()
    if pid in ("C07", "C08") and record.get("file", "").endswith("frame.rs"):
        p = _run(binary, ["frame-search"])
        for line in p.stdout.splitlines():
            if line.startswith("{"):
                w = json.loads(line)
                if w.get("found"):
                    w["scenario"] = "frame-one"
                    w["cmd"] = "replayer frame-one %s %d" % (w["input_hex"], w["offset"])
                    return w
        if p.returncode != 0:
            return {"found": True, "scenario": "frame-search", "kind": "process-died", "props": "C07,C10",
                    "observed": "replayer frame-search exited with %d: %s" % (p.returncode, p.stderr[-300:]),
                    "expected": "no abort"}
        # unbounded recursion shows only as a process abort
        d = _run(binary, ["frame-deep", "200000"])
        if d.returncode != 0:
            return {"found": True, "scenario": "frame-deep", "kind": "stack-exhaustion", "depth": 200000, "props": "C07,C10",
                    "input": "b\"*1\\r\\n\" x 200000 + b\":1\\r\\n\"",
                    "observed": "process terminated with status %d (%s)" % (d.returncode, d.stderr.strip()[-200:]),
                    "expected": "a frame, Incomplete or an error"}
        last = [l for l in p.stdout.splitlines() if l.startswith("{")]
        return json.loads(last[-1]) if last else {"found": False}
    if pid == "C18":
        h = _run(binary, ["store-background"], timeout=300)
        for line in h.stdout.splitlines():
            if line.startswith("{") and json.loads(line).get("found"):
                w = json.loads(line)
                w["scenario"] = "store-background"
                return w
        import syncsearch
        return syncsearch.search(binary)
    if pid == "C15":
        h = _run(binary, ["server-slots"], timeout=300)
        for line in h.stdout.splitlines():
            if line.startswith("{") and json.loads(line).get("found"):
                w = json.loads(line)
                w["scenario"] = "server-slots"
                return w
        return {"found": False}
    if pid == "C16":
        for sd in ("1", "2", "3"):
            h = _run(binary, ["server-shutdown", sd], timeout=300)
            for line in h.stdout.splitlines():
                if line.startswith("{") and json.loads(line).get("found"):
                    w = json.loads(line)
                    w["scenario"] = "server-shutdown"
                    w["seed"] = sd
                    return w
        return {"found": False}
    if pid == "C10":
        f0 = _run(binary, ["frame-search"])
        for line in f0.stdout.splitlines():
            if line.startswith("{") and json.loads(line).get("found"):
                w = json.loads(line)
                w["scenario"] = "frame-one"
                w["props"] = str(w.get("props", "")) + ",C10"
                return w
        d = _run(binary, ["frame-deep", "200000"])
        if d.returncode != 0:
            return {"found": True, "scenario": "frame-deep", "kind": "stack-exhaustion", "depth": 200000, "props": "C07,C10",
                    "observed": "process terminated with status %d (%s)" % (d.returncode, d.stderr.strip()[-200:]), "expected": "a frame, Incomplete or an error"}
        h = _run(binary, ["server-hostile"], timeout=300)
        for line in h.stdout.splitlines():
            if line.startswith("{") and json.loads(line).get("found"):
                w = json.loads(line)
                w["scenario"] = "server-hostile"
                return w
        if h.returncode != 0:
            return {"found": True, "scenario": "server-hostile", "kind": "process-died", "props": "C10",
                    "observed": "the server process exited with %d: %s" % (h.returncode, h.stderr[-400:]), "expected": "the server keeps running"}
        return {"found": False}
    if pid == "C06" and record.get("file", "").endswith("client.rs"):
        h = _run(binary, ["client-search"], timeout=300)
        for line in h.stdout.splitlines():
            if line.startswith("{") and json.loads(line).get("found"):
                w = json.loads(line)
                w["scenario"] = "client-search"
                return w
        return {"found": False}
    if pid == "C06":
        for seed in range(4):
            p = _run(binary, ["server-search", str(seed)], timeout=300)
            for line in p.stdout.splitlines():
                if line.startswith("{") and json.loads(line).get("found"):
                    w = json.loads(line)
                    w["scenario"] = "server-search"
                    return w
            if p.returncode != 0:
                return {"found": True, "scenario": "server-search", "seed": seed, "kind": "process-died", "props": "C06",
                        "observed": "replayer server-search exited with %d: %s" % (p.returncode, p.stderr[-400:]), "expected": "no panic"}
    if pid in ("C08", "C06") and record.get("file", "").endswith("connection.rs") and str(record.get("obligation", "")).endswith("contracts_applicable"):
        p0 = _run(binary, ["frame-search"])
        for line in p0.stdout.splitlines():
            if line.startswith("{") and json.loads(line).get("found"):
                w = json.loads(line)
                w["scenario"] = "frame-one"
                return w
    if pid in ("C08", "C06") and record.get("file", "").endswith("connection.rs"):
        d = _run(binary, ["decimal-search", "200000"])
        for line in d.stdout.splitlines():
            if line.startswith("{") and json.loads(line).get("found"):
                w = json.loads(line)
                w["scenario"] = "decimal-search"
                return w
        if d.returncode != 0:
            return {"found": True, "scenario": "decimal-search", "kind": "process-died", "props": "C08,C06",
                    "observed": "replayer decimal-search exited with %d: %s" % (d.returncode, d.stderr[-300:]), "expected": "every i64 is written"}
        p = _run(binary, ["conn-search"])
        for line in p.stdout.splitlines():
            if line.startswith("{"):
                w = json.loads(line)
                w["scenario"] = "conn-search"
                return w
        return {"found": True, "scenario": "conn-search", "kind": "process-died",
                "observed": "replayer conn-search exited with %d: %s" % (p.returncode, p.stderr[-400:]), "expected": "no panic"}
    if pid == "C09":
        import durability
        return durability.search(binary)
    if pid == "C17":
        c = _run(binary, ["store-closed"])
        for line in c.stdout.splitlines():
            if line.startswith("{") and json.loads(line).get("found"):
                w = json.loads(line)
                w["scenario"] = "store-closed"
                return w
        if c.returncode != 0:
            return {"found": True, "scenario": "store-closed", "kind": "process-died", "props": "C17",
                    "observed": "replayer store-closed exited with %d: %s" % (c.returncode, c.stderr[-300:]), "expected": "Err(Closed)"}
    if pid == "C03":
        import crashsearch
        r = crashsearch.search(binary)
        if r.get("found"):
            return r
    if record.get("file", "").startswith("src/storage"):
        seed = os.environ.get("VERIF_SEED", "0") or "0"
        p = _run(binary, ["store-search", seed], timeout=600, prop=pid)
        last = None
        for line in p.stdout.splitlines():
            if line.startswith("{"):
                last = json.loads(line)
        if p.returncode != 0:
            return {"found": True, "scenario": "store-search", "seed": seed, "kind": "process-died", "props": "C01,C04",
                    "observed": "replayer store-search exited with %d: %s" % (p.returncode, p.stderr[-500:]), "expected": "no panic / abort"}
        if last and last.get("found"):
            last["scenario"] = "store-search"
            last["seed"] = seed
            return last
        if pid == "C04":
            for sd in ("1", "2", "3"):
                t = _run(binary, ["store-concurrent", sd, "1500"])
                for line in t.stdout.splitlines():
                    if line.startswith("{") and json.loads(line).get("found"):
                        w = json.loads(line)
                        w["scenario"] = "store-concurrent"
                        w["seed"] = sd
                        return w
        if pid == "C20":
            t = _run(binary, ["store-torn-append"])
            for line in t.stdout.splitlines():
                if line.startswith("{"):
                    w = json.loads(line)
                    if w.get("found"):
                        w["scenario"] = "store-torn-append"
                        return w
        return last or {"found": False}
    return {"found": False, "searched": "no witness generator for this obligation"}


def execute(w):
    """Re-run a recorded witness. Returns (ok_now, text)."""
    binary = build()
    if w.get("scenario") == "frame-one":
        p = _run(binary, ["frame-search"])
        found = any(l.startswith("{") and json.loads(l).get("found") for l in p.stdout.splitlines())
        one = _run(binary, ["frame-one", w["input_hex"], str(w["offset"])])
        return (not found and p.returncode == 0), "recorded input: %s\nnow: %s%s" % (w.get("observed"), one.stdout.strip(), one.stderr.strip()[-300:])
    if w.get("scenario") == "frame-deep":
        d = _run(binary, ["frame-deep", str(w.get("depth", 200000))])
        return d.returncode == 0, "frame-deep exit status %d %s" % (d.returncode, d.stdout.strip()[:300])
    if w.get("scenario") in ("store-search", "store-torn-append"):
        args = ["store-search", str(w.get("seed", "0"))] if w["scenario"] == "store-search" else ["store-torn-append"]
        p = _run(binary, args, timeout=600)
        found = p.returncode != 0 or any(l.startswith("{") and json.loads(l).get("found") for l in p.stdout.splitlines())
        return (not found), p.stdout.strip()[-700:]
    if w.get("scenario") == "crash":
        import crashsearch
        r = crashsearch.search(binary)
        return (not r.get("found")), json.dumps(r)[:700]
    if w.get("scenario") == "durability":
        import durability
        r = durability.search(binary)
        return (not r.get("found")), json.dumps(r)[:700]
    if w.get("scenario") == "store-concurrent":
        p = _run(binary, ["store-concurrent", str(w.get("seed", "1")), "3000"])
        found = p.returncode != 0 or any(l.startswith("{") and json.loads(l).get("found") for l in p.stdout.splitlines())
        return (not found), p.stdout.strip()[-700:]
    if w.get("scenario") == "server-shutdown":
        p = _run(binary, ["server-shutdown", str(w.get("seed", "1"))], timeout=300)
        found = p.returncode != 0 or any(l.startswith("{") and json.loads(l).get("found") for l in p.stdout.splitlines())
        return (not found), p.stdout.strip()[-700:]
    if w.get("scenario") == "sync-interval":
        import syncsearch
        r = syncsearch.search(binary)
        return (not r.get("found")), json.dumps(r)[:700]
    if w.get("scenario") == "client-search":
        p = _run(binary, ["client-search"], timeout=300)
        found = p.returncode != 0 or any(l.startswith("{") and json.loads(l).get("found") for l in p.stdout.splitlines())
        return (not found), p.stdout.strip()[-700:]
    if w.get("scenario") == "store-background":
        p = _run(binary, ["store-background"], timeout=300)
        found = p.returncode != 0 or any(l.startswith("{") and json.loads(l).get("found") for l in p.stdout.splitlines())
        return (not found), p.stdout.strip()[-700:]
    if w.get("scenario") == "server-slots":
        p = _run(binary, ["server-slots"], timeout=300)
        found = p.returncode != 0 or any(l.startswith("{") and json.loads(l).get("found") for l in p.stdout.splitlines())
        return (not found), p.stdout.strip()[-700:]
    if w.get("scenario") == "store-closed":
        p = _run(binary, ["store-closed"])
        found = p.returncode != 0 or any(l.startswith("{") and json.loads(l).get("found") for l in p.stdout.splitlines())
        return (not found), p.stdout.strip()[-700:]
    if w.get("scenario") == "server-hostile":
        p = _run(binary, ["server-hostile"], timeout=300)
        found = p.returncode != 0 or any(l.startswith("{") and json.loads(l).get("found") for l in p.stdout.splitlines())
        return (not found), p.stdout.strip()[-700:]
    if w.get("scenario") == "decimal-search":
        p = _run(binary, ["decimal-search", "200000"])
        found = p.returncode != 0 or any(l.startswith("{") and json.loads(l).get("found") for l in p.stdout.splitlines())
        return (not found), p.stdout.strip()[-500:]
    if w.get("scenario") == "server-search":
        p = _run(binary, ["server-search", str(w.get("seed", 0))], timeout=300)
        found = p.returncode != 0 or any(l.startswith("{") and json.loads(l).get("found") for l in p.stdout.splitlines())
        return (not found), p.stdout.strip()[-700:]
    if w.get("scenario") == "conn-search":
        p = _run(binary, ["conn-search"])
        found = p.returncode != 0 or any(l.startswith("{") and json.loads(l).get("found") for l in p.stdout.splitlines())
        return (not found), p.stdout.strip()[-600:]
    return True, "no executable witness"
