"""Parser for /verif/contracts/*.spec.

Grammar (line oriented; a directive starts with '@' in column 0, its body is the rest of the line
plus all following lines up to the next directive; '#' in column 0 is a comment):

  @file   src/net/frame.rs                 sets the file for the following blocks
  @fn     impl Frame::fn parse             opens a function block (item path as printed by rustitems)
  @item   enum Error                       opens a block for a non-fn item
    @tags    C07 C08                       properties that rely on every obligation of this fn
    @ret     r                             name bound to the return value
    @requires[label; extra tags]  expr,    one clause list (label optional)
    @ensures[label; extra tags]   expr,
    @decreases expr
    @entry                                 ghost statements inserted at the start of the body
    @loop K                                loop clauses (invariant / ensures / decreases) of the K-th loop
    @loop K body-start|body-end|before|after     ghost statements at that position
    @at before|after [#K] `token sequence`       ghost statements before / after the statement that
                                                 contains the K-th occurrence of the token sequence
    @closure K <header>                    replaces the K-th closure's parameter list by <header>
                                           (params, '-> (r: T)', ensures ...) and braces its body
    @stub  reason                          R-stub-body: signature + assumed contract + unimplemented!()
    @skip  reason                          item is not emitted at all
    @attr  text                            attribute line put in front of the item
    @witness name                          replay script used when an obligation of this fn fails
    @param text                            extra trailing parameter (ghost) appended to the signature
    @tail NAME                             R-bind-tail: the tail expression E of the body becomes `let NAME = E; <ghost>; NAME`
"""
import re


class Clause:
    def __init__(self, kind, label, extra_tags, body, line):
        self.kind, self.label, self.extra_tags, self.body, self.line = kind, label, extra_tags, body, line


class Block:
    def __init__(self, file, path, is_fn, line, specfile):
        self.file, self.path, self.is_fn, self.line, self.specfile = file, path, is_fn, line, specfile
        self.tags = []
        self.ret = None
        self.clauses = []      # requires / ensures / decreases in order
        self.entry = []        # [(body, line)]
        self.loops = {}        # k -> (body, line)
        self.loop_hints = []   # (k, where, body, line)
        self.ats = []          # (before|after, k, tokens, body, line)
        self.closures = {}     # k -> (header, line)
        self.stub = None
        self.skip = None
        self.attrs = []
        self.witness = None
        self.params = []
        self.tail = None
        self.used = False

    def key(self):
        return (self.file, self.path)


_DIR = re.compile(r"^@(\w+)(\[[^\]]*\])?[ \t]*(.*)$")


def parse(path):
    blocks = []
    cur_file = None
    cur = None
    pending = None  # (directive, bracket, firstline_rest, [lines], lineno)

    def flush():
        nonlocal pending, cur, cur_file
        if pending is None:
            return
        d, br, rest, lines, ln = pending
        pending = None
        body = "\n".join([rest] + lines).strip("\n")
        if d == "file":
            cur_file = rest.strip()
            cur = None
            return
        if d in ("fn", "item"):
            cur = Block(cur_file, rest.strip(), d == "fn", ln, path)
            blocks.append(cur)
            return
        if cur is None:
            raise ValueError("%s:%d: directive @%s outside a block" % (path, ln, d))
        if d == "tags":
            cur.tags += rest.split()
        elif d == "ret":
            cur.ret = rest.strip()
        elif d in ("requires", "ensures", "decreases"):
            label, extra = None, []
            if br:
                inner = br[1:-1]
                parts = inner.split(";")
                label = parts[0].strip() or None
                if len(parts) > 1:
                    extra = parts[1].split()
            cur.clauses.append(Clause(d, label, extra, body.strip(), ln))
        elif d == "entry":
            cur.entry.append((body, ln))
        elif d == "loop":
            m = re.match(r"^(\d+)(?:[ \t]+(body-start|body-end|before|after|skip))?[ \t]*$", rest)
            if not m:
                raise ValueError("%s:%d: bad @loop header %r" % (path, ln, rest))
            k = int(m.group(1))
            b = "\n".join(lines).strip("\n")
            if m.group(2):
                cur.loop_hints.append((k, m.group(2), b, ln))
            else:
                cur.loops[k] = (b, ln)
        elif d == "at":
            m = re.match(r"^(before|after)[ \t]+(?:#(\d+)[ \t]+)?`([^`]*)`[ \t]*$", rest)
            if not m:
                raise ValueError("%s:%d: bad @at header %r" % (path, ln, rest))
            cur.ats.append((m.group(1), int(m.group(2) or 1), m.group(3), "\n".join(lines).strip("\n"), ln))
        elif d == "closure":
            # @closure K <header>            K-th closure of the function
            # @closure `|params|` [#K] <header>   K-th closure whose parameter list reads exactly |params|
            m2 = re.match(r"^`([^`]*)`[ \t]*(?:#(\d+)[ \t]+)?(.*)$", body, re.S)
            if m2:
                cur.closures[("params", m2.group(1).replace(" ", ""), int(m2.group(2) or 1))] = (m2.group(3).strip(), ln)
            else:
                m = re.match(r"^(\d+)[ \t]+(.*)$", body, re.S)
                cur.closures[int(m.group(1))] = (m.group(2).strip(), ln)
        elif d == "stub":
            cur.stub = rest.strip() or "stub"
        elif d == "skip":
            cur.skip = rest.strip() or "skip"
        elif d == "attr":
            cur.attrs.append(rest.strip())
        elif d == "witness":
            cur.witness = rest.strip()
        elif d == "param":
            cur.params.append(rest.strip())
        elif d == "tail":
            # @tail NAME  + ghost statements: the function's tail expression E becomes `let NAME = E; <ghost>; NAME`
            cur.tail = (rest.strip(), "\n".join(lines).strip("\n"), ln)
        else:
            raise ValueError("%s:%d: unknown directive @%s" % (path, ln, d))

    with open(path) as f:
        for ln, raw in enumerate(f, 1):
            line = raw.rstrip("\n")
            if line.startswith("#"):
                continue
            m = _DIR.match(line)
            if m:
                flush()
                pending = (m.group(1), m.group(2), m.group(3), [], ln)
            elif pending is not None:
                pending[3].append(line)
            elif line.strip():
                raise ValueError("%s:%d: text outside a directive" % (path, ln))
    flush()
    return blocks
