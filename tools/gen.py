"""Generate the single-file Verus input of a unit from /repo's *current* working tree.

  generated = trusted prelude  +  lemma library  +  for each listed repo file:
                 every item, byte-for-byte, after the documented rewrite rules,
                 with the contracts of /verif/contracts/*.spec spliced in at syntactic anchors.

Nothing executable is ever taken from /verif: code tokens come only from /repo (or from a rewrite
rule, each application of which is logged); contract text is restricted to specification clauses
and ghost statements (checked by `_check_ghost`).
A source map (generated line -> origin) is produced alongside.
"""
import json
import os
import re
import sys

sys.path.insert(0, os.path.dirname(os.path.abspath(__file__)))
from rustlex import lex, text as toktext, match_close, Tok  # noqa: E402
from rustitems import parse_file, walk  # noqa: E402
import specfile  # noqa: E402

VERIF = os.path.dirname(os.path.dirname(os.path.abspath(__file__)))
REPO = os.environ.get("VERIF_REPO", "/repo")

WS = ("ws", "lcomment", "bcomment")


class LostAnchor(Exception):
    pass


class Out:
    """Accumulates (text, origin) segments."""

    def __init__(self):
        self.segs = []

    def add(self, text, origin):
        if text:
            self.segs.append((text, origin))

    def render(self):
        lines = [[]]
        for text, origin in self.segs:
            parts = text.split("\n")
            for k, p in enumerate(parts):
                if k > 0:
                    lines.append([])
                if p.strip():
                    lines[-1].append(origin)
            # keep origin even for blank parts so multi-line chunks map completely
        src = "".join(t for t, _ in self.segs)
        linemap = []
        last = None
        for segs in lines:
            o = None
            # prefer a labelled / spec origin if present on the line
            for cand in segs:
                if cand and cand.get("o") == "spec":
                    o = cand
                    break
            if o is None and segs:
                o = segs[0]
            if o is None:
                o = last
            linemap.append(o)
            last = o
        return src, linemap


# ----------------------------------------------------------------------------------------------
# helpers on token lists

def sig_idx(toks, lo, hi):
    return [i for i in range(lo, hi) if toks[i].kind not in WS]


def alpha_normalised(toks, lo, hi):
    """Significant tokens of toks[lo:hi] with `let`-bound simple locals renamed to $0, $1, ... in binding order (a
    binding takes effect after the `;` that ends its statement, so `let x = f(x);` reads the older x).  Comments and
    white space are dropped.  Two texts with the same result differ only in comments, layout and the names of such
    locals; a rename that captures a parameter or field name changes the result."""
    idx = sig_idx(toks, lo, hi)
    out = []
    env = {}
    pending = []      # (depth, name, placeholder)
    depth = 0
    n = 0
    k = 0
    while k < len(idx):
        t = toks[idx[k]]
        if t.text in "([{" and t.kind == "punct":
            depth += 1
        elif t.text in ")]}" and t.kind == "punct":
            depth -= 1
            for p in [p for p in pending if p[0] > depth]:
                pending.remove(p)
                env[p[1]] = p[2]
        elif t.text == ";" and t.kind == "punct":
            for p in [p for p in pending if p[0] >= depth]:
                pending.remove(p)
                env[p[1]] = p[2]
        if t.kind == "id" and t.text == "let":
            j = k + 1
            if j < len(idx) and toks[idx[j]].text == "mut":
                j += 1
            if j < len(idx) and toks[idx[j]].kind == "id" and j + 1 < len(idx) and toks[idx[j + 1]].text in ("=", ":", ";") \
                    and toks[idx[j]].text not in ("_",) and not toks[idx[j]].text[0].isupper():
                out.extend(toks[idx[q]].text for q in range(k, j))
                ph = "$%d" % n
                n += 1
                pending.append((depth, toks[idx[j]].text, ph))
                out.append(ph)
                k = j + 1
                continue
        if t.kind == "id" and t.text in env:
            prev = toks[idx[k - 1]].text if k > 0 else ""
            nxt = toks[idx[k + 1]].text if k + 1 < len(idx) else ""
            if prev not in (".", "::") and nxt not in ("::", "!"):
                out.append(env[t.text])
                k += 1
                continue
        out.append(t.text)
        k += 1
    return out


def next_sig(toks, i, hi):
    while i < hi and toks[i].kind in WS:
        i += 1
    return i


def prev_sig(toks, i, lo):
    while i >= lo and toks[i].kind in WS:
        i -= 1
    return i


def line_of(src_offsets, pos):
    # src_offsets: sorted list of line start offsets
    import bisect
    return bisect.bisect_right(src_offsets, pos)


_GHOST_STARTS = ("proof", "let ghost", "let tracked", "assert", "broadcast use", "reveal", "assume_not_allowed")


def _check_ghost(chunk, where):
    """Every top-level statement of an inserted chunk must be a ghost statement."""
    toks = lex(chunk)
    i, n = 0, len(toks)
    while True:
        i = next_sig(toks, i, n)
        if i >= n:
            return
        rest = toktext(toks, i, min(n, i + 6))
        rest_norm = " ".join(rest.split())
        if not any(rest_norm.startswith(g) for g in _GHOST_STARTS[:-1]):
            raise ValueError("%s: inserted statement is not a ghost statement: %r" % (where, rest_norm[:60]))
        # skip to end of statement: ';' at depth 0, or a closing '}' of a block statement at depth 0
        # followed by something that is not ';'
        j = i
        while j < n:
            t = toks[j]
            if t.kind == "punct" and t.text in "([{":
                e = match_close(toks, j)
                if t.text == "{":
                    k = next_sig(toks, e + 1, n)
                    if k >= n or toks[k].text not in (";", "by", "."):
                        # 'proof { .. }' / 'assert .. by { .. }' end here
                        if not (k < n and toks[k].kind == "id" and toks[k].text in ("else",)):
                            j = e + 1
                            break
                j = e + 1
                continue
            if t.kind == "punct" and t.text == ";":
                j += 1
                break
            j += 1
        i = j


# ----------------------------------------------------------------------------------------------
# rewrite rules (token level).  Each returns nothing and mutates edits; each logs its application.

class Edits:
    def __init__(self):
        self.before = {}   # tok idx -> [(text, origin)]
        self.after = {}
        self.replace = {}  # tok idx -> text ('' deletes)

    def ins_before(self, i, text, origin):
        self.before.setdefault(i, []).append((text, origin))

    def ins_after(self, i, text, origin):
        self.after.setdefault(i, []).insert(0, (text, origin))

    def ins_after_append(self, i, text, origin):
        self.after.setdefault(i, []).append((text, origin))

    def delete(self, a, b):
        for k in range(a, b):
            self.replace[k] = ""


DERIVE_KEEP = ["Debug", "Default", "Clone", "PartialEq", "Eq"]
LOG_MACROS = ("debug", "info", "error", "warn", "trace")
DROP_ATTR_PREFIXES = ("#[tracing::instrument", "#[allow(clippy", "#[error(", "#[from]", "#[source]", "#[serde", "#[clap")


def rule_attrs(toks, lo, hi, edits, log):
    """R-derive (attribute part): drop tracing / clippy / thiserror / serde attributes wherever they
    occur inside the item, and reduce derive lists."""
    i = lo
    while i < hi:
        t = toks[i]
        if t.kind == "punct" and t.text == "#":
            j = next_sig(toks, i + 1, hi)
            if j < hi and toks[j].text == "[":
                e = match_close(toks, j)
                a = toktext(toks, i, e + 1)
                flat = a.replace(" ", "")
                if flat.startswith(DROP_ATTR_PREFIXES):
                    edits.delete(i, e + 1)
                    log("R-derive: dropped attribute %s" % flat[:40])
                elif flat.startswith("#[derive("):
                    names = [x.strip() for x in a[a.index("(") + 1:a.rindex(")")].split(",") if x.strip()]
                    keep = [x for x in names if x in DERIVE_KEEP]
                    if keep != names:
                        log("R-derive: derive(%s) -> derive(%s)" % (",".join(names), ",".join(keep)))
                    edits.delete(i, e + 1)
                    if keep:
                        edits.ins_before(i, "#[derive(%s)]" % ", ".join(keep), None)
                i = e + 1
                continue
        i += 1


def rule_log(toks, lo, hi, edits, log):
    """R-log: statements `debug!(..);` etc. removed."""
    s = sig_idx(toks, lo, hi)
    for n, i in enumerate(s):
        t = toks[i]
        if t.kind == "id" and t.text in LOG_MACROS and n + 2 < len(s) and toks[s[n + 1]].text == "!" \
                and toks[s[n + 2]].text in ("(", "{", "["):
            p = s[n - 1] if n > 0 else None
            if p is not None and toks[p].text not in (";", "{", "}"):
                continue
            e = match_close(toks, s[n + 2])
            k = next_sig(toks, e + 1, hi)
            if k < hi and toks[k].text == ";":
                edits.delete(i, k + 1)
                log("R-log: removed %s!(..);" % t.text)


def rule_closure_underscore(toks, lo, hi, edits, log):
    """R-closure-underscore: |_| -> |_e| ; and `for _ in` -> `for _i in`."""
    s = sig_idx(toks, lo, hi)
    for n in range(len(s) - 2):
        a, b, c = toks[s[n]], toks[s[n + 1]], toks[s[n + 2]]
        if a.text == "|" and b.text == "_" and c.text == "|":
            edits.replace[s[n + 1]] = "_e"
            log("R-closure-underscore")
        if a.kind == "id" and a.text == "for" and b.text == "_" and c.kind == "id" and c.text == "in":
            edits.replace[s[n + 1]] = "_i"
            log("R-for-underscore")


def _decode_bytestr(lit):
    body = lit[2:-1]
    out = []
    i = 0
    esc = {"n": 10, "r": 13, "t": 9, "\\": 92, "0": 0, '"': 34, "'": 39}
    while i < len(body):
        c = body[i]
        if c == "\\":
            n = body[i + 1]
            if n == "x":
                out.append(int(body[i + 2:i + 4], 16))
                i += 4
            elif n in esc:
                out.append(esc[n])
                i += 2
            else:
                raise ValueError("unsupported escape in byte string %r" % lit)
        else:
            if ord(c) > 127:
                raise ValueError("non-ASCII byte string %r" % lit)
            out.append(ord(c))
            i += 1
    return out


def rule_bytestr(toks, lo, hi, edits, log):
    """R-bytestr: b"..." -> &[b0, b1, ..] (same type &[u8; N], same value; Verus knows the length of a
    byte-string literal but not its content)."""
    for i in range(lo, hi):
        t = toks[i]
        if t.kind == "str" and t.text.startswith('b"'):
            bs = _decode_bytestr(t.text)
            edits.replace[i] = "(&[" + ", ".join("%du8" % b for b in bs) + "])"
            log("R-bytestr: %s" % t.text)


def make_seq_rule(name, from_seq, to_text, not_after=()):
    """Token-sequence replacement: `<from_seq>` -> `<to_text>` (not where the preceding token is one of `not_after`)."""
    want = [t.text for t in lex(from_seq) if t.kind not in WS]

    def rule(toks, lo, hi, edits, log, it=None):
        s = sig_idx(toks, lo, hi)
        n = 0
        while n <= len(s) - len(want):
            if all(toks[s[n + k]].text == want[k] for k in range(len(want))):
                if not (n > 0 and want[0] == "std" and toks[s[n - 1]].text == "::") and not (n > 0 and toks[s[n - 1]].text in not_after):
                    edits.delete(s[n], s[n + len(want) - 1] + 1)
                    edits.ins_before(s[n], to_text, None)
                    log("%s: `%s` -> `%s`" % (name, from_seq, to_text))
                    n += len(want)
                    continue
            n += 1
    return rule


def make_for_index_rule(iter_text, elem_prefix="&"):
    """R-for-slice: `for PAT in <iter_text> { B }` over a slice / Vec reference ->
       `let mut verif_i: usize = 0; while verif_i < <iter_text>.len() { let PAT = &<iter_text>[verif_i]; verif_i += 1; B }`
    (Rust's in-order slice iteration made explicit; `continue`/`break`/`?` in B keep their meaning)."""
    want = [t.text for t in lex(iter_text) if t.kind not in WS]

    def rule(toks, lo, hi, edits, log, it=None):
        s = sig_idx(toks, lo, hi)
        for n, i in enumerate(s):
            if toks[i].kind == "id" and toks[i].text == "for":
                # find `in`
                m = n + 1
                while m < len(s) and not (toks[s[m]].kind == "id" and toks[s[m]].text == "in"):
                    m += 1
                if m + len(want) >= len(s):
                    continue
                if not all(toks[s[m + 1 + k]].text == want[k] for k in range(len(want))):
                    continue
                if toks[s[m + 1 + len(want)]].text != "{":
                    continue
                pat = toktext(toks, s[n + 1], s[m]).strip()
                op = s[m + 1 + len(want)]
                edits.delete(i + 1, op)
                edits.ins_before(i, "let mut verif_i: usize = 0; ", None)
                edits.replace[i] = "while verif_i < %s.len() " % iter_text
                edits.ins_after(op, " let %s = %s%s[verif_i]; verif_i += 1; " % (pat, elem_prefix, iter_text), None)
                log("R-for-slice: for %s in %s" % (pat, iter_text))
    return rule


def make_ghost_arg_rule(names, skip_after=(), arg="Tracked(w)", param="Tracked(w): Tracked<&mut World>", only_after=None):
    """R-ghost-arg: every definition `fn NAME(..)` with NAME in `names` gets the trailing ghost parameter
    and every call `NAME(..)` / `.NAME(..)` / `NAME::<T>(..)` the trailing ghost argument.
    skip_after: {NAME: [receiver idents]} -- calls `<recv>.NAME(` are left alone (same method name on a
    container that does not touch the World)."""
    names = set(names)

    def rule(toks, lo, hi, edits, log, it=None):
        s = sig_idx(toks, lo, hi)
        for n, i in enumerate(s):
            t = toks[i]
            if t.kind != "id" or t.text not in names:
                continue
            m = n + 1
            if m < len(s) and toks[s[m]].text == "::" and m + 1 < len(s) and toks[s[m + 1]].text == "<":
                depth = 0
                m += 1
                while m < len(s):
                    if toks[s[m]].text == "<":
                        depth += 1
                    elif toks[s[m]].text == ">":
                        depth -= 1
                        if depth == 0:
                            m += 1
                            break
                    elif toks[s[m]].text == ">>":
                        depth -= 2
                        if depth <= 0:
                            m += 1
                            break
                    m += 1
            is_def = n > 0 and toks[s[n - 1]].text == "fn"
            if is_def and m < len(s) and toks[s[m]].text == "<":
                depth = 0
                while m < len(s):
                    if toks[s[m]].text == "<":
                        depth += 1
                    elif toks[s[m]].text == ">":
                        depth -= 1
                        if depth == 0:
                            m += 1
                            break
                    m += 1
            if m >= len(s) or toks[s[m]].text != "(":
                continue
            if not is_def and n >= 2 and toks[s[n - 1]].text == "." and toks[s[n - 2]].text in skip_after.get(t.text, ()):
                continue
            if not is_def and only_after and t.text in only_after:
                # method name shared with containers: only calls on the listed receivers are World-aware
                if not (n >= 2 and toks[s[n - 1]].text == "." and toks[s[n - 2]].text in only_after[t.text]):
                    continue
            if not is_def and n >= 1 and toks[s[n - 1]].text not in (".", "::") and n >= 1 and toks[s[n - 1]].kind == "id" and toks[s[n - 1]].text not in ("return", "in", "else", "match", "if", "unsafe"):
                continue
            op = s[m]
            cl = match_close(toks, op)
            last = prev_sig(toks, cl - 1, op)
            sep = "" if toks[last].text in ("(", ",") else ", "
            edits.ins_before(cl, sep + (param if is_def else arg), None)
            log("R-ghost-arg: %s %s" % ("fn" if is_def else "call", t.text))
    return rule


def make_for_rule(name, matcher):
    """Generic loop-header rewrite. matcher(iter_tokens_text, pat_text) -> (setup, cond, bind) or None."""
    def rule(toks, lo, hi, edits, log, it=None):
        s = sig_idx(toks, lo, hi)
        for n, i in enumerate(s):
            if not (toks[i].kind == "id" and toks[i].text == "for"):
                continue
            m = n + 1
            while m < len(s) and not (toks[s[m]].kind == "id" and toks[s[m]].text == "in"):
                m += 1
            if m >= len(s):
                continue
            # iterable: tokens up to the body brace (first `{` at depth 0)
            j = s[m] + 1
            while j < hi:
                u = toks[j]
                if u.kind == "punct" and u.text in ("(", "["):
                    j = match_close(toks, j) + 1
                    continue
                if u.kind == "punct" and u.text == "{":
                    break
                j += 1
            if j >= hi:
                continue
            iter_text = " ".join(toks[k].text for k in range(s[m] + 1, j) if toks[k].kind not in WS)
            pat = toktext(toks, s[n + 1], s[m]).strip()
            r = matcher(iter_text, pat)
            if r is None:
                continue
            setup, cond, bind = r
            edits.delete(i + 1, j)
            edits.ins_before(i, setup + " ", None)
            edits.replace[i] = "while %s " % cond
            if "@@SKIP@@" in bind:
                b1, b2 = bind.split("@@SKIP@@")
                # segments in order: b1, slot, b2  (ins_after inserts at the front, so add in reverse)
                edits.ins_after(j, " %s " % b2, None)
                edits.ins_after(j, "/*verif-skip-slot*/", None)
                edits.ins_after(j, " %s " % b1, None)
            else:
                edits.ins_after(j, " %s " % bind, None)
            log("%s: for %s in %s" % (name, pat, iter_text))
    return rule


def rule_mut_self(toks, lo, hi, edits, log, it=None):
    """R-mut-self: `fn f(mut self, ..) { BODY }` -> `fn f(self, ..) { let mut verif_self = self; BODY[self := verif_self] }`
    (Verus rejects `mut self`; a by-value `mut` binding is exactly a local initialised from the parameter)."""
    if it is None or it.kind != "fn" or it.open is None:
        return
    s = sig_idx(toks, it.kw, it.open)
    hit = None
    for n in range(len(s) - 1):
        if toks[s[n]].text == "mut" and toks[s[n + 1]].text == "self" and toks[s[n - 1]].text in ("(", ","):
            hit = s[n]
            break
    if hit is None:
        return
    edits.replace[hit] = ""
    edits.ins_after(it.open, " let mut verif_self = self; ", None)
    for i in sig_idx(toks, it.open + 1, hi):
        if toks[i].kind == "id" and toks[i].text == "self":
            edits.replace[i] = "verif_self"
    log("R-mut-self: `mut self` -> local `verif_self`")


def make_mut_param_rule(name):
    """R-mut-param: `async fn f(.., mut NAME: T, ..) { BODY }` -> `async fn f(.., NAME: T, ..) { let mut NAME = NAME; BODY }`
    (a by-value `mut` parameter is exactly a mutable local initialised from the parameter; Verus rejects it on async fns)."""
    def rule(toks, lo, hi, edits, log, it=None):
        if it is None or it.kind != "fn" or it.open is None:
            return
        s = sig_idx(toks, it.kw, it.open)
        for n in range(1, len(s) - 2):
            if toks[s[n]].text == "mut" and toks[s[n + 1]].text == name and toks[s[n + 2]].text == ":" and toks[s[n - 1]].text in ("(", ","):
                edits.replace[s[n]] = ""
                edits.ins_after(it.open, " let mut %s = %s; " % (name, name), None)
                log("R-mut-param: `mut %s` -> local rebinding" % name)
                return
    return rule


def make_break_value_rule(fn_names):
    """R-break-value: in the listed functions (whose loop is the function's tail expression) a value-carrying
    `break EXPR;` becomes `return EXPR;` (Verus rejects value-carrying breaks)."""
    def rule(toks, lo, hi, edits, log, it=None):
        if it is None or it.kind != "fn" or it.name not in fn_names or it.open is None:
            return
        s = sig_idx(toks, it.open, hi)
        for n, i in enumerate(s):
            if toks[i].kind == "id" and toks[i].text == "break" and n + 1 < len(s) and toks[s[n + 1]].text != ";" and toks[s[n + 1]].kind != "life":
                edits.replace[i] = "return"
                log("R-break-value: break EXPR -> return EXPR")
    return rule


def make_call_rule(name, seq_text, new_callee, extra_arg):
    """R-call: `<seq_text>(ARGS)` -> `<new_callee>(ARGS<extra_arg>)` (used for R-prealloc and the
    World-threading rule R-ghost-arg)."""
    want = [t.text for t in lex(seq_text) if t.kind not in WS]

    def rule(toks, lo, hi, edits, log, it=None):
        s = sig_idx(toks, lo, hi)
        for n in range(len(s) - len(want)):
            if all(toks[s[n + k]].text == want[k] for k in range(len(want))) and toks[s[n + len(want)]].text == "(":
                if n > 0 and toks[s[n - 1]].text in ("::", ".") and want[0] not in (".",):
                    continue
                op = s[n + len(want)]
                cl = match_close(toks, op)
                if new_callee is not None:
                    edits.delete(s[n], op)
                    edits.ins_before(s[n], new_callee, None)
                last = prev_sig(toks, cl - 1, op)
                sep = "" if toks[last].text in ("(", ",") else ", "
                edits.ins_before(cl, sep + extra_arg, None)
                log("%s: %s(..) -> %s(.., %s)" % (name, seq_text, new_callee or seq_text, extra_arg))
    return rule


# ----------------------------------------------------------------------------------------------
# anchors

LOOP_KW = ("while", "for", "loop")


def find_loops(toks, lo, hi):
    """[(kw_idx, open_idx, close_idx)] in source order."""
    out = []
    s = sig_idx(toks, lo, hi)
    for n, i in enumerate(s):
        t = toks[i]
        if t.kind == "id" and t.text in LOOP_KW:
            # `for` in `impl X for Y` / HRTB does not occur inside bodies; `for<'a>` skipped
            if t.text == "for" and n + 1 < len(s) and toks[s[n + 1]].text == "<":
                continue
            j = i + 1
            while j < hi:
                u = toks[j]
                if u.kind == "punct" and u.text in ("(", "["):
                    j = match_close(toks, j) + 1
                    continue
                if u.kind == "punct" and u.text == "{":
                    break
                j += 1
            if j >= hi:
                continue
            out.append((i, j, match_close(toks, j)))
    return out


_CLOSURE_PREV = {"(", ",", "=", "{", ";", "=>", "[", "return", "move", "&&", "||", "!", ":"}


def find_closures(toks, lo, hi):
    """[(bar_idx, params_end_idx, body_lo, body_hi, is_block)] ; body range is [body_lo, body_hi)."""
    out = []
    s = sig_idx(toks, lo, hi)
    n = 0
    while n < len(s):
        i = s[n]
        t = toks[i]
        if t.kind == "punct" and t.text in ("|", "||"):
            p = toks[s[n - 1]] if n > 0 else None
            if p is not None and (p.text in _CLOSURE_PREV):
                if t.text == "||":
                    pe = i
                else:
                    j = i + 1
                    while j < hi:
                        u = toks[j]
                        if u.kind == "punct" and u.text in ("(", "[", "{"):
                            j = match_close(toks, j) + 1
                            continue
                        if u.kind == "punct" and u.text == "|":
                            break
                        j += 1
                    pe = j
                b = next_sig(toks, pe + 1, hi)
                # optional return type
                if toks[b].text == "->":
                    while toks[b].text != "{":
                        b += 1
                if toks[b].text == "{":
                    e = match_close(toks, b) + 1
                    out.append((i, pe, b, e, True))
                else:
                    j = b
                    while j < hi:
                        u = toks[j]
                        if u.kind == "punct" and u.text in ("(", "[", "{"):
                            j = match_close(toks, j) + 1
                            continue
                        if u.kind == "punct" and u.text in (",", ")", ";", "}", "]"):
                            break
                        j += 1
                    # trim trailing whitespace
                    e = j
                    while toks[e - 1].kind in WS:
                        e -= 1
                    out.append((i, pe, b, e, False))
                # continue scanning inside the closure body as well (nested closures)
        n += 1
    return out


def find_tokseq(toks, lo, hi, seq_text):
    want = [t.text for t in lex(seq_text) if t.kind not in WS]
    s = sig_idx(toks, lo, hi)
    hits = []
    for n in range(len(s) - len(want) + 1):
        if all(toks[s[n + k]].text == want[k] for k in range(len(want))):
            hits.append((s[n], s[n + len(want) - 1]))
    return hits


def stmt_end_after(toks, i, hi):
    """index of the ';' ending the statement that contains token i (same nesting depth)."""
    j = i
    while j < hi:
        u = toks[j]
        if u.kind == "punct" and u.text in ("(", "[", "{"):
            j = match_close(toks, j) + 1
            continue
        if u.kind == "punct" and u.text in (")", "]"):
            j += 1      # the anchor was inside a parenthesised part of the statement
            continue
        if u.kind == "punct" and u.text == "}":
            raise LostAnchor("statement has no terminating ';' in its block")
        if u.kind == "punct" and u.text == ";":
            return j
        j += 1
    raise LostAnchor("ran off the function")


def stmt_start_before(toks, i, lo):
    """(index after which to insert, arm) ; arm=True when the statement is a brace-less match arm body."""
    depth = 0
    j = i - 1
    while j >= lo:
        u = toks[j]
        if u.kind == "punct":
            if u.text in (")", "]", "}"):
                if depth == 0 and u.text == "}":
                    return j, False
                depth += 1
            elif u.text in ("(", "[", "{"):
                if depth == 0:
                    if u.text == "{":
                        return j, False
                    raise LostAnchor("anchor is inside parentheses")
                depth -= 1
            elif depth == 0 and u.text == ";":
                return j, False
            elif depth == 0 and u.text == "=>":
                return j, True
        j -= 1
    raise LostAnchor("ran off the function")


def arm_end(toks, i, hi):
    """toks[i] is the first token of a brace-less match arm body; return index of the token that ends
    it (',' or the closing '}' of the match), exclusive."""
    j = i
    while j < hi:
        u = toks[j]
        if u.kind == "punct" and u.text in ("(", "[", "{"):
            j = match_close(toks, j) + 1
            continue
        if u.kind == "punct" and u.text in (",", "}"):
            return j
        j += 1
    raise LostAnchor("arm end not found")


# ----------------------------------------------------------------------------------------------

class Generator:
    def __init__(self, unit):
        self.unit = unit
        self.out = Out()
        self.rule_log = []
        self.blocks = {}
        self.functions = []       # dicts: path, file, name, tags, labels, canary name ...
        self.obligations = []     # labelled clauses
        self.lost = []            # lost anchors (fn, anchor, reason)
        self.unverified = []      # stubs / skips with reason
        self.unlisted = []
        self.errors = []
        self.stub_all = False
        self.canaries = []
        self._impl_header = None
        self._canary_mods = 0
        self.auto_stub = set(x for x in os.environ.get("VERIF_STUB_FNS", "").split("|") if x)
        self.no_isolation = set(x for x in os.environ.get("VERIF_NOISOLATE_FNS", "").split("|") if x)
        self.auto_stubbed = []
        for sf in unit.get("specs", []):
            for b in specfile.parse(os.path.join(VERIF, "contracts", sf)):
                if b.file in unit.get("spec_skip", {}).get(sf, ()):
                    continue   # this unit takes the blocks of that repo file from another spec file
                if b.key() in self.blocks:
                    raise ValueError("duplicate block %s %s" % b.key())
                self.blocks[b.key()] = b

    def log(self, file, fn):
        def f(msg):
            self.rule_log.append({"file": file, "item": fn, "rule": msg})
        return f

    # -- raw (prelude / lemma) files ----------------------------------------------------------
    def emit_raw(self, relpath, kind):
        p = os.path.join(VERIF, relpath)
        with open(p) as f:
            for ln, line in enumerate(f, 1):
                o = {"o": kind, "f": relpath, "l": ln}
                m = re.search(r"//@\[([^\]]+)\]", line)
                if m:
                    parts = m.group(1).split(";")
                    o["label"] = parts[0].strip()
                    o["tags"] = parts[1].split() if len(parts) > 1 else []
                self.out.add(line if line.endswith("\n") else line + "\n", o)

    # -- repo files ---------------------------------------------------------------------------
    def emit_repo(self, relfile, mode="all", only=None, canary=True, extra_rules=(), outline_ret=None, header_rules=(), select=False):
        self._header_rules = header_rules
        path = os.path.join(REPO, relfile)
        src = open(path).read()
        self._premap = None
        if select:
            import outline
            src = outline.select_rewrite(src, self.log(relfile, None))
        if outline_ret:
            import outline
            src, self._premap = outline.outline(src, outline_ret, self.log(relfile, None))
        toks, items = parse_file(src)
        offs = [0]
        for m in re.finditer("\n", src):
            offs.append(m.end())
        self._cur = (relfile, src, toks, offs)
        # constants and statics of the file: a stubbed function's assumed contract was written for these values too
        self._file_consts = []
        for it in items:
            if it.kind in ("const", "static") and not it.is_test:
                self._file_consts += [toks[k].text for k in sig_idx(toks, it.a0, it.end)]
        self.out.add("\n// ===== %s (extracted from the working tree) =====\n" % relfile, None)
        for it in items:
            self._emit_item(it, only, canary, extra_rules)
        if self.canaries:
            # vacuity canaries live in a child module (sees the parent's private items) so that Verus,
            # which parallelises per module, checks them on another thread
            self._canary_mods += 1
            self.out.add("\npub mod verif_canaries_%d {\nuse super::*;\n" % self._canary_mods, None)
            for hdr, segs in self.canaries:
                if hdr is not None:
                    for t, o in hdr:
                        self.out.add(t, o)
                    self.out.add("\n", None)
                for t, o in segs:
                    self.out.add(t, o)
                if hdr is not None:
                    self.out.add("}\n", None)
            self.out.add("} // canaries\n", None)
            self.canaries = []

    def _origin(self, tokidx, fnpath=None):
        relfile, src, toks, offs = self._cur
        ln = line_of(offs, toks[tokidx].start)
        if getattr(self, "_premap", None):
            ln = self._premap[min(ln, len(self._premap)) - 1]
        return {"o": "repo", "f": relfile, "l": ln, "fn": fnpath}

    def _emit_item(self, it, only, canary, extra_rules, depth=0):
        relfile, src, toks, offs = self._cur
        blk = self.blocks.get((relfile, it.path()))
        if blk is not None:
            blk.used = True
        if it.kind in ("use", "extern") or (it.kind == "mod" and it.open is None) or it.is_test:
            return
        if it.kind == "macro":
            self.unverified.append({"file": relfile, "item": it.path(), "reason": "macro item not extracted"})
            return
        if blk is not None and blk.skip:
            self.unverified.append({"file": relfile, "item": it.path(), "reason": "skipped: " + blk.skip})
            return
        if only is not None and it.kind != "impl" and it.path() not in only:
            if it.kind == "fn":
                self.unlisted.append({"file": relfile, "item": it.path()})
            return
        if it.kind in ("impl", "trait", "mod"):
            kids = [c for c in it.children]
            if only is not None and it.kind == "impl":
                if not any(c.path() in only for c in kids) and it.path() not in only:
                    for c in kids:
                        if c.kind == "fn":
                            self.unlisted.append({"file": relfile, "item": c.path()})
                    return
            # header
            edits = Edits()
            rule_attrs(toks, it.a0, it.open, edits, self.log(relfile, it.path()))
            for r in getattr(self, "_header_rules", ()):
                r(toks, it.a0, it.open, edits, self.log(relfile, it.path()), it)
            if blk is not None:
                for a in blk.attrs:
                    self.out.add(a + "\n", {"o": "spec", "f": blk.specfile, "l": blk.line, "fn": it.path()})
            n0 = len(self.out.segs)
            self._flush(toks, it.a0, it.open + 1, edits, it.path())
            self._impl_header = list(self.out.segs[n0:])
            self.out.add("\n", None)
            canaries = []
            for c in kids:
                self._emit_item(c, only, canary, extra_rules, depth + 1)
                self.out.add("\n", None)
            self.out.add("}\n", self._origin(it.end - 1, it.path()))
            self._impl_header = None
            return
        if it.kind == "fn":
            self._emit_fn(it, blk, canary, extra_rules)
            return
        # struct / enum / const / type / static : verbatim modulo attribute rule
        edits = Edits()
        rule_attrs(toks, it.a0, it.end, edits, self.log(relfile, it.path()))
        for r in extra_rules:
            r(toks, it.a0, it.end, edits, self.log(relfile, it.path()), it)
        if blk is not None:
            for a in blk.attrs:
                self.out.add(a + "\n", {"o": "spec", "f": blk.specfile, "l": blk.line, "fn": it.path()})
        self._flush(toks, it.a0, it.end, edits, it.path())
        self.out.add("\n", None)
        if it.kind == "enum":
            self._emit_from_impls(it)

    def _emit_from_impls(self, it):
        """R-derive (thiserror part): for each `Variant(#[from] T)` generate the From impl thiserror
        generates, plus vstd's FromSpecImpl so that `?` conversions are transparent to Verus."""
        relfile, src, toks, offs = self._cur
        s = sig_idx(toks, it.open, it.end)
        axioms = []
        opened = False
        for n in range(len(s) - 6):
            if toks[s[n]].kind == "id" and toks[s[n + 1]].text == "(" and toks[s[n + 2]].text == "#" \
                    and toks[s[n + 3]].text == "[" and toks[s[n + 4]].text == "from" and toks[s[n + 5]].text == "]":
                close = match_close(toks, s[n + 1])
                ty = toktext(toks, s[n + 5] + 1, close).strip()
                var = toks[s[n]].text
                en = it.name
                o = {"o": "rule", "f": relfile, "l": line_of(offs, toks[s[n]].start), "fn": it.path()}
                if not opened:
                    self.out.add("pub mod verif_from_%s {\nuse super::*;\n" % it.name, o)
                    opened = True
                self.out.add(
                    "impl From<%s> for %s { fn from(e: %s) -> (r: %s) ensures r == %s::%s(e) { %s::%s(e) } }\n"
                    "impl vstd::std_specs::convert::FromSpecImpl<%s> for %s {\n"
                    "    open spec fn obeys_from_spec() -> bool { true }\n"
                    "    open spec fn from_spec(e: %s) -> %s { %s::%s(e) }\n}\n"
                    "// `?` converts errors through this From impl (vstd leaves spec_from uninterpreted for user conversions)\n"
                    "pub broadcast axiom fn axiom_from_%s_%s(e: %s, e2: %s)\n"
                    "    ensures #[trigger] vstd::std_specs::control_flow::spec_from::<%s, %s>(e, e2) ==> e2 == %s::%s(e);\n"
                    % (ty, en, ty, en, en, var, en, var, ty, en, ty, en, en, var,
                       en, var, ty, en, en, ty, en, var), o)
                axioms.append("axiom_from_%s_%s" % (en, var))
                self.log(relfile, it.path())("R-derive: generated From<%s> for %s (thiserror #[from])" % (ty, en))
        if axioms:
            self.out.add("}\nbroadcast use %s;\n" % ", ".join("verif_from_%s::%s" % (it.name, a) for a in axioms),
                         {"o": "rule", "f": relfile, "l": 0, "fn": it.path()})

    def _flush(self, toks, lo, hi, edits, fnpath):
        for i in range(lo, hi):
            for text, origin in edits.before.get(i, []):
                self.out.add(text, origin or self._origin(i, fnpath))
            if i in edits.replace:
                self.out.add(edits.replace[i], self._origin(i, fnpath))
            else:
                self.out.add(toks[i].text, self._origin(i, fnpath))
            for text, origin in edits.after.get(i, []):
                self.out.add(text, origin or self._origin(i, fnpath))

    def _emit_fn(self, it, blk, canary, extra_rules):
        relfile, src, toks, offs = self._cur
        fnpath = it.path()
        if fnpath in getattr(self, "auto_stub", ()) and it.open is not None:
            # graceful degradation: the annotations of this function no longer fit its text (front-end rejection); it is emitted
            # with its contract ASSUMED so that the rest of the unit can still be verified; the check marks it undecided
            import copy as _cp
            blk = _cp.copy(blk) if blk is not None else specfile.Block(relfile, fnpath, True, 0, "(auto)")
            blk.stub = "AUTO-STUB: the annotations no longer fit this function's text"
            blk.entry, blk.loops, blk.loop_hints, blk.ats, blk.closures = [], {}, [], [], {}
            self.auto_stubbed.append(fnpath)
        in_trait_impl = it.parent is not None and it.parent.kind == "impl" and " for " in it.parent.name
        variants = [False]
        trait_canary = None
        if canary and it.open is not None and in_trait_impl and blk is not None and not blk.stub and blk.clauses:
            # canary of a trait method: an inherent copy `impl TYPE { fn name__canary .. }` with Self::X read as <Self as TRAIT>::X
            hdr_text = "".join(t_ for t_, _ in (getattr(self, "_impl_header", None) or []))
            m_ = re.match(r"^\s*impl\s+([^<{][^{]*?)\s+for\s+([^{]+?)\s*\{\s*$", hdr_text, re.S)
            if m_ and "where" not in hdr_text and not re.search(r"\bSelf\s*::\s*(?!Error\b|Output\b|Target\b|Item\b)[A-Z]", toktext(toks, it.a0, it.end)):
                trait_canary = ("", m_.group(1), m_.group(2))
        if canary and it.open is not None and (not in_trait_impl or trait_canary) and not (blk is not None and blk.stub):
            variants.append(True)
        info = {"file": relfile, "path": fnpath, "name": it.name, "tags": list(blk.tags) if blk else [],
                "labels": [], "stub": bool(blk and blk.stub) or self.stub_all, "has_contract": bool(blk and blk.clauses),
                "canary": len(variants) > 1, "line": line_of(offs, toks[it.kw].start),
                "witness": blk.witness if blk else None, "lost_anchors": []}
        self.functions.append(info)
        if blk is not None and blk.stub and str(blk.stub).startswith("AUTO-STUB"):
            self.unverified.append({"file": relfile, "item": fnpath, "reason": blk.stub})
        elif blk is not None and blk.stub:
            import hashlib
            body_sha = hashlib.sha1(" ".join(alpha_normalised(toks, it.a0, it.end) + getattr(self, "_file_consts", [])).encode()).hexdigest()[:16]
            info["stub_sha"] = body_sha
            self.unverified.append({"file": relfile, "item": fnpath, "reason": "R-stub-body: " + blk.stub, "body_sha": body_sha})
        elif self.stub_all:
            self.unverified.append({"file": relfile, "item": fnpath, "reason": "contract assumed in this unit; body verified in the unit that owns the file"})
        for is_canary in variants:
            edits = Edits()
            lg = self.log(relfile, fnpath) if not is_canary else (lambda m: None)
            rule_attrs(toks, it.a0, it.end, edits, lg)
            if it.open is not None:
                rule_log(toks, it.open, it.end, edits, lg)
                rule_closure_underscore(toks, it.open, it.end, edits, lg)
                rule_bytestr(toks, it.open, it.end, edits, lg)
            for r in extra_rules:
                r(toks, it.a0, it.end, edits, lg, it)
            if not is_canary and it.open is not None and not (blk is not None and blk.stub) and not self.stub_all:
                # float comparisons: Verus accepts `a > b` on f64 in exec code but leaves the result unspecified, so a comparison
                # that rule R-f64-cmp did not consume makes every proof about that function fail for a reason that has nothing
                # to do with the code; count the calls that produce a float and were not consumed
                sg = sig_idx(toks, it.open, it.end)
                calls = sum(1 for q in range(len(sg) - 3) if toks[sg[q]].text == "." and toks[sg[q + 1]].text == "fragmentation" and toks[sg[q + 2]].text == "(")
                done = sum(1 for e in self.rule_log if e["file"] == relfile and e["item"] == fnpath and e["rule"].startswith("R-f64-cmp"))
                if calls > done:
                    info["f64_unrewritten"] = calls - done
            if blk is not None:
                self._splice(it, blk, edits, info, is_canary)
            elif self.stub_all and it.open is not None:
                for k in range(it.open + 1, it.end - 1):
                    edits.before.pop(k, None)
                    edits.after.pop(k, None)
                    edits.replace.pop(k, None)
                edits.delete(it.open + 1, it.end - 1)
                edits.ins_after(it.open, " unimplemented!() ", None)
                edits.before.setdefault(it.a0, []).insert(0, ("#[verifier::external_body]\n", {"o": "spec", "f": None, "l": 0, "fn": fnpath}))
            if is_canary:
                # rename and add `ensures false`
                j = next_sig(toks, it.kw + 1, it.end)
                if edits.replace.get(j) == "":
                    # a rewrite rule replaced the signature text: rename inside the replacement
                    for k_, lst in edits.before.items():
                        for n_, (t_, o_) in enumerate(lst):
                            if re.search(r"\bfn %s\b" % re.escape(toks[j].text), t_):
                                lst[n_] = (re.sub(r"\bfn %s\b" % re.escape(toks[j].text), "fn %s__canary" % toks[j].text, t_), o_)
                else:
                    edits.replace[j] = toks[j].text + "__canary"
                if blk is None:
                    self._insert_sig_clauses(it, edits, [("ensures", "canary", "false", None)], fnpath + "#canary", blk)
            if is_canary:
                main_out = self.out
                self.out = Out()
            if blk is not None:
                for a in blk.attrs:
                    self.out.add(a + "\n", {"o": "spec", "f": blk.specfile, "l": blk.line, "fn": fnpath})
            if not is_canary and fnpath in self.no_isolation and not (blk is not None and any("loop_isolation" in a for a in blk.attrs)):
                # second opinion after a failed loop obligation (see check): the same function with Verus's loop isolation off, so
                # that what is known in front of a loop stays known inside it
                self.out.add("#[verifier::loop_isolation(false)]\n", {"o": "spec", "f": None, "l": 0, "fn": fnpath})
            if is_canary:
                self.out.add("\n#[allow(dead_code)] #[verifier::rlimit(2)] ", None)
            self._flush(toks, it.a0, it.end, edits, fnpath + ("#canary" if is_canary else ""))
            self.out.add("\n", None)
            if is_canary:
                hdr = getattr(self, "_impl_header", None)
                segs = self.out.segs
                if trait_canary:
                    g_, tr_, ty_ = trait_canary
                    hdr = [("impl%s %s {" % (g_, ty_), None)]
                    segs = list(segs)
                    for i_ in range(len(segs) - 2):
                        if segs[i_][0] == "Self" and segs[i_ + 1][0] == "::" and segs[i_ + 2][0] in ("Error", "Output", "Target", "Item"):
                            segs[i_] = ("<Self as %s>" % tr_, segs[i_][1])
                # canaries live one module deeper: `super::X` in the copied text must climb one more level
                segs = [(("super::super" if (t_ == "super" and i_ + 1 < len(segs) and segs[i_ + 1][0] == "::" and (i_ == 0 or segs[i_ - 1][0] != "::")) else t_), o_)
                        for i_, (t_, o_) in enumerate(segs)]
                self.canaries.append((hdr, segs))
                self.out = main_out

    # -- contract splicing ----------------------------------------------------------------------
    def _sig_parts(self, it):
        """(params_open, params_close, arrow or None, ret_lo, ret_hi, where or None)"""
        relfile, src, toks, offs = self._cur
        hi = it.open if it.open is not None else it.end - 1
        j = next_sig(toks, it.kw + 1, hi)      # name
        j = next_sig(toks, j + 1, hi)
        if toks[j].text == "<":
            depth = 0
            while True:
                if toks[j].text == "<":
                    depth += 1
                elif toks[j].text == ">":
                    depth -= 1
                elif toks[j].text == ">>":
                    depth -= 2
                j += 1
                if depth <= 0:
                    break
            j = next_sig(toks, j, hi)
        assert toks[j].text == "(", "cannot find parameter list of %s" % it.path()
        po = j
        pc = match_close(toks, j)
        j = next_sig(toks, pc + 1, hi)
        arrow = None
        ret_lo = ret_hi = None
        where = None
        if j < hi and toks[j].text == "->":
            arrow = j
            ret_lo = next_sig(toks, j + 1, hi)
            k = ret_lo
            while k < hi:
                u = toks[k]
                if u.kind == "punct" and u.text in ("(", "["):
                    k = match_close(toks, k) + 1
                    continue
                if u.kind == "id" and u.text == "where":
                    where = k
                    break
                k += 1
            ret_hi = prev_sig(toks, k - 1, ret_lo) + 1
        else:
            k = j
            while k < hi:
                if toks[k].kind == "id" and toks[k].text == "where":
                    where = k
                    break
                k += 1
        return po, pc, arrow, ret_lo, ret_hi, where

    def _insert_sig_clauses(self, it, edits, clauses, fnpath, blk):
        """clauses: [(kind, label, body, line)] inserted before the body brace, grouped by kind."""
        relfile, src, toks, offs = self._cur
        anchor = it.open if it.open is not None else it.end - 1
        order = ["requires", "ensures", "decreases"]
        for kind in order:
            group = [c for c in clauses if c[0] == kind]
            if not group:
                continue
            edits.ins_before(anchor, "\n    %s\n" % kind, {"o": "spec", "f": blk.specfile if blk else None,
                                                          "l": group[0][3], "fn": fnpath, "kind": kind})
            for (_, label, body, line) in group:
                b = body.strip()
                while b.endswith(","):
                    b = b[:-1].rstrip()
                o = {"o": "spec", "f": blk.specfile if blk else None, "l": line, "fn": fnpath, "kind": kind}
                if label:
                    o["label"] = label
                edits.ins_before(anchor, "        " + b + ",\n", o)

    def _splice(self, it, blk, edits, info, is_canary):
        relfile, src, toks, offs = self._cur
        fnpath = it.path() + ("#canary" if is_canary else "")
        po, pc, arrow, ret_lo, ret_hi, where = self._sig_parts(it)
        sp = {"o": "spec", "f": blk.specfile, "l": blk.line, "fn": fnpath}
        # extra ghost params
        for p in blk.params:
            last = prev_sig(toks, pc - 1, po)
            sep = "" if toks[last].text in ("(", ",") else ", "
            edits.ins_before(pc, sep + p, sp)
        # named return value
        if blk.ret:
            if arrow is None:
                edits.ins_after(pc, " -> (%s: ())" % blk.ret, sp)
            else:
                edits.before.setdefault(ret_lo, []).insert(0, ("(%s: " % blk.ret, sp))
                edits.ins_after(ret_hi - 1, ")", sp)
        clauses = []
        for c in blk.clauses:
            clauses.append((c.kind, c.label, c.body, c.line))
            if c.label and not is_canary and not self.stub_all:
                info["labels"].append(c.label)
                self.obligations.append({"label": c.label, "fn": it.path(), "file": relfile, "kind": c.kind,
                                         "extra_tags": c.extra_tags, "spec": "%s:%d" % (os.path.basename(blk.specfile), c.line)})
        if is_canary:
            clauses.append(("ensures", "canary", "false", blk.line))
        self._insert_sig_clauses(it, edits, clauses, fnpath, blk)
        if it.open is None:
            return
        if blk.stub or self.stub_all:
            # R-stub-body
            for k in range(it.open + 1, it.end - 1):
                edits.before.pop(k, None)
                edits.after.pop(k, None)
                edits.replace.pop(k, None)
            edits.after.pop(it.open, None)
            edits.before.pop(it.end - 1, None)
            edits.delete(it.open + 1, it.end - 1)
            edits.ins_after(it.open, " unimplemented!() ", sp)
            # the attribute must precede whatever a rewrite rule put in front of the item's first token
            edits.before.setdefault(it.a0, []).insert(0, ("#[verifier::external_body]\n", dict(sp, f=None) if str(blk.stub).startswith("AUTO-STUB") else sp))
            return
        lo, hi = it.open + 1, it.end - 1

        def lost(what, why):
            if not is_canary:
                info["lost_anchors"].append({"anchor": what, "reason": why})
                self.lost.append({"fn": it.path(), "file": relfile, "anchor": what, "reason": why})

        if getattr(blk, "tail", None):
            name, body, line = blk.tail
            _check_ghost(body, "%s:%d" % (blk.specfile, line))
            # tail expression: after the last `;` at depth 0, skipping complete for / while / loop statements
            s_ = sig_idx(toks, lo, hi)
            start = s_[0] if s_ else None
            n_ = 0
            while n_ < len(s_):
                t_ = toks[s_[n_]]
                if t_.kind == "punct" and t_.text in ("(", "[", "{"):
                    n_ = s_.index(match_close(toks, s_[n_])) + 1
                    continue
                if t_.kind == "punct" and t_.text == ";":
                    start = s_[n_ + 1] if n_ + 1 < len(s_) else None
                    # skip loop statements that follow
                    while start is not None and toks[start].kind == "id" and toks[start].text in ("for", "while", "loop"):
                        m_ = s_.index(start)
                        while toks[s_[m_]].text != "{":
                            m_ += 1
                        m_ = s_.index(match_close(toks, s_[m_])) + 1
                        start = s_[m_] if m_ < len(s_) else None
                        n_ = m_ - 1
                n_ += 1
            if start is None:
                lost("tail expression", "the body has no tail expression")
            else:
                o_ = {"o": "spec", "f": blk.specfile, "l": line, "fn": fnpath, "kind": "tail"}
                edits.ins_before(start, "let %s = " % name, o_)
                edits.ins_before(it.end - 1, ";\n" + body + "\n" + name + "\n", o_)
                if not is_canary:
                    self.log(relfile, fnpath)("R-bind-tail: tail expression bound to `%s`" % name)
        for body, line in blk.entry:
            _check_ghost(body, "%s:%d" % (blk.specfile, line))
            edits.ins_after_append(it.open, "\n" + body + "\n", {"o": "spec", "f": blk.specfile, "l": line, "fn": fnpath, "kind": "entry"})
        loops = find_loops(toks, lo, hi)
        for k, (body, line) in sorted(blk.loops.items()):
            if k > len(loops):
                lost("loop %d" % k, "function has only %d loops" % len(loops))
                continue
            kw, op, cl = loops[k - 1]
            edits.ins_before(op, "\n" + body + "\n", {"o": "spec", "f": blk.specfile, "l": line, "fn": fnpath,
                                                    "kind": "loop", "label": "%s.loop%d" % (it.name, k)})
        for k, where_, body, line in blk.loop_hints:
            if k > len(loops):
                lost("loop %d %s" % (k, where_), "function has only %d loops" % len(loops))
                continue
            kw, op, cl = loops[k - 1]
            _check_ghost(body, "%s:%d" % (blk.specfile, line))
            o = {"o": "spec", "f": blk.specfile, "l": line, "fn": fnpath, "kind": "hint"}
            if where_ == "skip":
                segs = edits.after.get(op, [])
                for n_, (t_, o_) in enumerate(segs):
                    if t_ == "/*verif-skip-slot*/":
                        segs[n_] = ("\n" + body + "\n", o)
                        break
                else:
                    lost("loop %d skip" % k, "loop has no filter / skip slot")
            elif where_ == "body-start":
                edits.ins_after_append(op, "\n" + body + "\n", o)
            elif where_ == "body-end":
                edits.ins_before(cl, "\n" + body + "\n", o)
            elif where_ == "before":
                # directly in front of the loop keyword (after any setup a loop rewrite rule put there)
                edits.ins_before(kw, "\n" + body + "\n", o)
            else:
                edits.ins_after_append(cl, "\n" + body + "\n", o)
        for where_, k, seq, body, line in blk.ats:
            _check_ghost(body, "%s:%d" % (blk.specfile, line))
            o = {"o": "spec", "f": blk.specfile, "l": line, "fn": fnpath, "kind": "hint"}
            hits = find_tokseq(toks, lo, hi, seq)
            if len(hits) < k:
                lost("%s #%d `%s`" % (where_, k, seq), "token sequence occurs %d times" % len(hits))
                continue
            a, b = hits[k - 1]
            try:
                if where_ == "after":
                    e = stmt_end_after(toks, b, hi)
                    edits.ins_after_append(e, "\n" + body + "\n", o)
                else:
                    s, arm = stmt_start_before(toks, a, lo - 1)
                    if arm:
                        first = next_sig(toks, s + 1, hi)
                        end = arm_end(toks, first, hi)
                        last = prev_sig(toks, end - 1, first)
                        edits.ins_before(first, "{\n" + body + "\n", o)
                        edits.ins_after_append(last, " }", o)
                        self.log(relfile, fnpath)("R-arm-brace: `P => E` -> `P => { ghost; E }`") if not is_canary else None
                    else:
                        edits.ins_after_append(s, "\n" + body + "\n", o)
            except LostAnchor as e:
                lost("%s #%d `%s`" % (where_, k, seq), str(e))
        if blk.closures:
            cls = find_closures(toks, lo, hi)
            for k, (header, line) in sorted(blk.closures.items(), key=lambda kv: str(kv[0])):
                if isinstance(k, tuple):
                    _, ptxt, nth = k
                    cand = [c for c in cls if toktext(toks, c[0], c[1] + 1).replace(" ", "").replace("\n", "") == ptxt]
                    if len(cand) < nth:
                        lost("closure `%s` #%d" % (ptxt, nth), "function has %d such closures" % len(cand))
                        continue
                    bar, pe, blo, bhi, is_block = cand[nth - 1]
                    k = "%s#%d" % (ptxt, nth)
                else:
                    if k > len(cls):
                        lost("closure %d" % k, "function has only %d closures" % len(cls))
                        continue
                    bar, pe, blo, bhi, is_block = cls[k - 1]
                o = {"o": "spec", "f": blk.specfile, "l": line, "fn": fnpath, "kind": "closure",
                     "label": "%s.closure%s" % (it.name, k)}
                edits.delete(bar, pe + 1)
                edits.ins_before(bar, header + " ", o)
                if not is_block:
                    edits.ins_before(blo, "{ ", o)
                    edits.ins_after_append(bhi - 1, " }", o)


def generate(unit, outdir):
    global DERIVE_KEEP
    DERIVE_KEEP = unit.get("derive_keep", ["Debug", "Default", "Clone", "PartialEq", "Eq"])
    g = Generator(unit)
    g.out.add(unit.get("header", ""), None)
    g.out.add("verus! {\n", None)
    cur_mod = None
    mods = []
    for part in unit["parts"]:
        opts = part[3] if part[0] == "raw" and len(part) > 3 else (part[2] if part[0] == "repo" and len(part) > 2 else {})
        m = opts.get("mod")
        if m != cur_mod:
            if cur_mod is not None:
                g.out.add("\n} // mod %s\n" % cur_mod, None)
            if m is not None:
                g.out.add("\npub mod %s {\nuse super::*;\n%s\n" % (m, unit.get("mod_uses", {}).get(m, "")), None)
                if m not in mods:
                    mods.append(m)
            cur_mod = m
        if part[0] == "raw":
            g.emit_raw(part[1], part[2])
        elif part[0] == "repo":
            g.stub_all = bool(opts.get("stub_all"))
            g.emit_repo(part[1], only=opts.get("only"), canary=opts.get("canary", True) and not g.stub_all,
                        extra_rules=opts.get("rules", ()), outline_ret=opts.get("outline"), header_rules=opts.get("header_rules", ()), select=opts.get("select", False))
            g.stub_all = False
    if cur_mod is not None:
        g.out.add("\n} // mod %s\n" % cur_mod, None)
    g.out.add(unit.get("root_uses", ""), None)
    g.out.add("\n} // verus!\nfn main() {}\n", None)
    src, linemap = g.out.render()
    os.makedirs(outdir, exist_ok=True)
    name = unit["name"]
    with open(os.path.join(outdir, name + ".rs"), "w") as f:
        f.write(src)
    unused = [b for b in g.blocks.values() if not b.used]
    meta = {
        "unit": name,
        "functions": g.functions,
        "obligations": g.obligations,
        "lost_anchors": g.lost,
        "unverified": g.unverified,
        "auto_stubbed": g.auto_stubbed,
        "unlisted": g.unlisted,
        "rewrite_log": g.rule_log,
        "missing_items": [{"file": b.file, "item": b.path, "spec": "%s:%d" % (os.path.basename(b.specfile), b.line)} for b in unused],
        "linemap": linemap,
    }
    with open(os.path.join(outdir, name + ".map.json"), "w") as f:
        json.dump(meta, f)
    return meta


if __name__ == "__main__":
    import units
    u = units.UNITS[sys.argv[1]]
    m = generate(u, os.path.join(VERIF, "build", "gen"))
    print("generated %s: %d functions, %d labelled obligations, %d lost anchors, %d missing items" % (
        u["name"], len(m["functions"]), len(m["obligations"]), len(m["lost_anchors"]), len(m["missing_items"])))
    for l in m["lost_anchors"]:
        print("  LOST", l)
    for l in m["missing_items"]:
        print("  MISSING", l)
