"""C18, sync half, on the real code (bounded, real time): with SyncStrategy::IntervalMs(25) the store is kept open for 1.5 s under
`strace -f -y -e trace=fsync,fdatasync`; the active data file must be fsync'ed at least 8 times (about 55 are expected; the margin absorbs a
loaded machine), whatever the merge policy; with SyncStrategy::None no fsync may come from the background at all."""
import os
import re
import subprocess
import tempfile


def _count(binary, policy, interval, dur):
    fd, log = tempfile.mkstemp(prefix="verif-sync-", suffix=".strace")
    os.close(fd)
    try:
        subprocess.run(["strace", "-f", "-y", "-e", "trace=fsync,fdatasync", "-o", log, binary, "store-sync-run", policy, str(interval), str(dur)],
                       stdout=subprocess.PIPE, stderr=subprocess.PIPE, text=True, timeout=120)
        import durability
        text = durability.join_lines(open(log, errors="replace").read())
        return len([l for l in text.splitlines() if re.search(r"f(data)?sync\(\d+<[^>]*\.bitcask\.data>", l)])
    finally:
        try:
            os.unlink(log)
        except OSError:
            pass


def search(binary):
    runs = []
    for policy in ("never", "always"):
        n = _count(binary, policy, 25, 1500)
        runs.append((policy, 25, n))
        if n < 8:      # about 55 are expected; the margin absorbs a loaded machine and the slowdown under strace
            return {"found": True, "scenario": "sync-interval", "kind": "sync-interval", "props": "C18",
                    "history": "merge policy %s, SyncStrategy::IntervalMs(25), store open and written to for 1500 ms" % policy,
                    "observed": "%d fsync calls on a data file" % n, "expected": "about 55 (at least 8)"}
    n0 = _count(binary, "always", 0, 600)
    if n0 > 0:
        return {"found": True, "scenario": "sync-interval", "kind": "sync-interval", "props": "C18",
                "history": "SyncStrategy::None, store open and written to for 600 ms", "observed": "%d fsync calls on a data file" % n0, "expected": "0"}
    return {"found": False, "evaluations": 3, "searched": "fsync calls on the data files under strace: interval sync 25 ms for 1.5 s with merge policy never / always (%s), and none with SyncStrategy::None" % ", ".join("%s: %d" % (p, n) for p, _, n in runs)}
