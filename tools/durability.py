"""C09 on the real code (bounded): run a history with sync=always under strace and check, on the system calls the
process really issues, that no data / hint file is unlinked while ANOTHER data / hint file of the store has bytes
written since its last fsync / fdatasync (those bytes are what a power loss may take away, and the unlinked file may
have held the only durable copy)."""
import json
import os
import re
import subprocess
import tempfile

HISTORIES = [
    (64, "all", "set a 1; set b 2; set a 3; set c 4; del b; merge; checkall; set d 5; merge; checkall"),
    (1 << 20, "all", "set a 1; set a 2; set b 3; merge; checkall; reopen; checkall"),
    (40, "dead", "set a 1; set b 2; set a 3; set c 4; set b 5; merge; checkall"),
    # values at and above the 8 KiB write buffer (std's BufWriter hands such a slice straight to the file): as the last operation
    # of the history, and as the entry that triggers a roll-over (the file is then closed)
    (1 << 20, "all", "set a 1; set big %s" % ("x" * 9000)),
    (1 << 20, "all", "set a 1; set edge %s" % ("e" * 8192)),
    (10000, "all", "set a 1; set big %s; set b 2; del a" % ("y" * 20000)),
]
_OPEN = re.compile(r'openat\([^,]+, "([^"]+\.bitcask\.(?:data|hint))", ([A-Z_|]+)[^)]*\)\s+= (\d+)')
_WRITE = re.compile(r'(?:write|pwrite64)\((\d+),.*\)\s+= (\d+)')
_SYNC = re.compile(r'(?:fsync|fdatasync)\((\d+)\)\s+= 0')
_CLOSE = re.compile(r'close\((\d+)\)\s+= 0')
_UNLINK = re.compile(r'unlink(?:at)?\((?:[^,"]+, )?"([^"]+\.bitcask\.(?:data|hint))"[^)]*\)\s+= 0')


_UNFIN = re.compile(r"^(\d+)\s+(\w+)\((.*) <unfinished \.\.\.>\s*$")
_RESUM = re.compile(r"^(\d+)\s+<\.\.\. (\w+) resumed>(.*)$")


def join_lines(trace):
    """strace -f splits a call that is interrupted by another thread into `... <unfinished ...>` and
    `<... NAME resumed> ...`; put the two halves together again (in the position of the second half)."""
    pending = {}
    out = []
    for line in trace.splitlines():
        m = _UNFIN.match(line)
        if m:
            pending[(m.group(1), m.group(2))] = m.group(3)
            continue
        m = _RESUM.match(line)
        if m and (m.group(1), m.group(2)) in pending:
            out.append("%s %s(%s%s" % (m.group(1), m.group(2), pending.pop((m.group(1), m.group(2))), m.group(3)))
            continue
        out.append(line)
    return "\n".join(out)


def analyse(trace):
    trace = join_lines(trace)
    fd_path = {}
    dirty = {}   # path -> bytes written since last sync
    for line in trace.splitlines():
        if "<unfinished" in line or "resumed>" in line:
            # -f output may split calls; the calls of interest are short and complete in practice
            pass
        m = _OPEN.search(line)
        if m:
            if "O_WRONLY" in m.group(2) or "O_RDWR" in m.group(2):
                fd_path[m.group(3)] = m.group(1)
            continue
        m = _WRITE.search(line)
        if m and m.group(1) in fd_path and int(m.group(2)) > 0:
            p = fd_path[m.group(1)]
            dirty[p] = dirty.get(p, 0) + int(m.group(2))
            continue
        m = _SYNC.search(line)
        if m and m.group(1) in fd_path:
            dirty[fd_path[m.group(1)]] = 0
            continue
        m = _CLOSE.search(line)
        if m:
            fd_path.pop(m.group(1), None)
            continue
        m = _UNLINK.search(line)
        if m:
            victim = m.group(1)
            bad = {os.path.basename(p): n for p, n in dirty.items() if n > 0 and p != victim}
            if bad:
                return {"unlinked": os.path.basename(victim), "unsynced": bad}
            dirty.pop(victim, None)
    left = {os.path.basename(p): n for p, n in dirty.items() if n > 0}
    if left:
        # every operation of the history has returned by the time the process exits
        return {"unlinked": None, "unsynced": left}
    return None


def search(binary):
    """A finding is reported only if the same history shows the same kind of finding a second time: the histories are
    single-threaded and deterministic, so a real defect reproduces, while an artefact of tracing under load (a check of
    benign refactor B3_2 once came back with a finding that four repetitions did not show) does not."""
    first = _search_once(binary, HISTORIES)
    if not first.get("found") or first.get("scenario") != "durability":
        return first
    again = _search_once(binary, [h for h in HISTORIES if "max_file_size=%d, merge selects %s: %s" % h in first.get("history", "")] or HISTORIES)
    if again.get("found") and again.get("kind") == first.get("kind"):
        return first
    return {"found": False, "searched": "a finding of the first pass (%s) did not reproduce on the same history and is discarded" % first.get("kind")}


def _search_once(binary, histories):
    n = 0
    for max_size, mode, ops in histories:
        n += 1
        with tempfile.NamedTemporaryFile(prefix="verif-strace-", suffix=".log", delete=False) as tf:
            log = tf.name
        try:
            env = dict(os.environ, VERIF_SYNC="always")
            p = subprocess.run(["strace", "-f", "-qq", "-e", "trace=openat,write,pwrite64,fsync,fdatasync,close,unlink,unlinkat", "-o", log,
                                binary, "store-history", str(max_size), mode, "durability", ops],
                               stdout=subprocess.PIPE, stderr=subprocess.PIPE, text=True, env=env, timeout=300)
            trace = open(log, errors="replace").read()
        finally:
            try:
                os.unlink(log)
            except OSError:
                pass
        for line in p.stdout.splitlines():
            if line.startswith("{") and json.loads(line).get("found"):
                w = json.loads(line)
                w["scenario"] = "store-history"
                return w
        bad = analyse(trace)
        if bad and bad["unlinked"] is None:
            return {"found": True, "scenario": "durability", "kind": "acknowledged-but-unsynced", "props": "C09",
                    "history": "sync=always, max_file_size=%d, merge selects %s: %s" % (max_size, mode, ops),
                    "observed": "at the end of the history (every operation acknowledged) bytes written since the last fsync: %s" % bad["unsynced"],
                    "expected": "with sync=always nothing an acknowledged operation wrote is left unsynced"}
        if bad:
            return {"found": True, "scenario": "durability", "kind": "unlink-before-fsync", "props": "C09",
                    "history": "sync=always, max_file_size=%d, merge selects %s: %s" % (max_size, mode, ops),
                    "observed": "unlink(%s) while bytes written since the last fsync: %s" % (bad["unlinked"], bad["unsynced"]),
                    "expected": "every other data / hint file is fsync'ed before a file is removed (a power loss now loses values that were durable)"}
    return {"found": False, "searched": "%d histories with merges under strace (sync=always): no file unlinked while another store file had unsynced bytes" % n}
