"""Replay files and counterexample search for failed obligations.

make_replay(pid, record, unit_results) -> (path, found_input)
    writes /verif/replays/<pid>-<hash>.json naming the failed obligation, the repo location, Verus's
    diagnostic and -- when one of the witness generators below finds it -- a concrete input together
    with the behaviour observed on the *real* code.
run_replay(pid, path)
    re-executes the recorded witness against the crate built from /repo's working tree.
"""
import hashlib
import json
import os
import subprocess
import sys

VERIF = os.path.dirname(os.path.dirname(os.path.abspath(__file__)))
REPO = os.environ.get("VERIF_REPO", "/repo")


def _witness(pid, record):
    """Try to find a concrete failing input on the real code. Returns dict or None."""
    try:
        import witness
    except ImportError:
        return None
    try:
        return witness.search(pid, record)
    except Exception as e:  # a broken witness search must never turn into an alarm or hide one
        return {"found": False, "error": "%s: %s" % (type(e).__name__, e)}


def _known_kinds(pid):
    import re
    out = set()
    p = os.path.join(VERIF, "known_findings.txt")
    if os.path.exists(p):
        for line in open(p):
            if line.startswith("open:"):   # whatever property it is listed under: a known finding is never a witness
                m = re.search(r"search_kind=(\S+)", line)
                if m:
                    out.add(m.group(1))
    return out


def make_replay(pid, record, unit_results, only_if_found=False, need_prop=None):
    rdir = os.environ.get("VERIF_REPLAY_DIR") or os.path.join(VERIF, "replays")
    os.makedirs(rdir, exist_ok=True)
    key = "%s|%s|%s" % (pid, record["obligation"], record["function"])
    h = hashlib.sha1(key.encode()).hexdigest()[:10]
    path = os.path.join(rdir, "%s-%s.json" % (pid, h))
    w = _witness(pid, record)
    if w and w.get("found") and w.get("kind") in _known_kinds(pid):
        # the search only reproduced a listed known finding: that is not a witness for THIS obligation
        w = {"found": False, "note": "the bounded search only reproduced the open known finding `%s`" % w.get("kind")}
    if need_prop and w and w.get("found"):
        props = [x.strip() for x in str(w.get("props", "")).split(",") if x.strip()]
        if need_prop not in props:
            w = {"found": False, "note": "a failing input was found but it contradicts %s, not %s" % (props, need_prop), "other": w}
    if only_if_found and not (w and w.get("found")):
        return None, False
    doc = {
        "property": pid,
        "obligation": record["obligation"],
        "function": record["function"],
        "file": record.get("file"),
        "repo_lines": record.get("repo_lines") or record.get("exits"),
        "kind": record.get("kind"),
        "verifier": "verus",
        "diagnostic": record.get("diagnostic"),
        "verifier_output": record.get("rendered"),
        "witness": w,
        "failing_input_found": bool(w and w.get("found")),
    }
    with open(path, "w") as f:
        json.dump(doc, f, indent=1)
    return path, doc["failing_input_found"]


def run_replay(pid, path):
    doc = json.load(open(path))
    w = doc.get("witness") or {}
    if not w.get("found"):
        print("replay %s: obligation %s in %s; no concrete input recorded (verifier output is in the file)" % (
            path, doc["obligation"], doc["function"]))
        return 0
    import witness
    ok, out = witness.execute(w)
    print(out)
    if ok:
        print("replay: the recorded input no longer fails on the current tree")
        return 0
    print("VIOLATION property=%s replay=%s" % (pid, path))
    return 1
