#!/bin/bash
# usage: seed_eval.sh <seed-id> <property> <agent worktree>   -- confirm a seeded change independently, then run the check on it
set -u
ID=$1; PROP=$2; SA=$3
W=${SEED_W:-/tmp/w1}
OUT=/verif/seeded/$ID
mkdir -p $OUT
cp $SA/seed_out/patch.diff $OUT/patch.diff
cp $SA/seed_out/seed_demo.rs $OUT/seed_demo.rs
cp $SA/seed_out/notes.md $OUT/agent_notes.md 2>/dev/null
cd $W && git checkout -q -- . && git clean -fdq tests 2>/dev/null; rm -f tests/seed_demo.rs
LOG=$OUT/confirm.log; : > $LOG
echo "== apply patch in scratch worktree" >> $LOG
git apply $OUT/patch.diff >> $LOG 2>&1 || { echo "PATCH DOES NOT APPLY"; exit 3; }
echo "== existing suite with the change" >> $LOG
cargo test --offline --lib 2>&1 | grep "test result" >> $LOG
SUITE=$(grep -c "test result: ok. 44 passed" $LOG)
mkdir -p tests && cp $OUT/seed_demo.rs tests/seed_demo.rs
echo "== demo with the change (must fail)" >> $LOG
timeout 600 cargo test --offline --features verif --test seed_demo >> $LOG 2>&1; WITH=$?
git checkout -q -- src
echo "== demo without the change (must pass)" >> $LOG
timeout 600 cargo test --offline --features verif --test seed_demo >> $LOG 2>&1; WITHOUT=$?
rm -f tests/seed_demo.rs
echo "suite_ok=$SUITE demo_with_change_exit=$WITH demo_without_change_exit=$WITHOUT" | tee -a $LOG
# the check on the changed tree (the scratch worktree stands in for /repo: same HEAD, plus the change)
cd $W && git apply $OUT/patch.diff || { echo "patch does not apply"; exit 3; }
cd /verif && VERIF_REPO=$W VERIF_EVIDENCE_DIR=/tmp/ev_$ID VERIF_GEN_DIR=/tmp/gen_$ID VERIF_REPLAY_DIR=$OUT/replays ./check $PROP > $OUT/check.out 2>&1; CE=$?
git -C $W checkout -q -- .
rm -rf /tmp/ev_$ID /tmp/gen_$ID /tmp/gen_$ID-noiso
echo "check_exit=$CE" | tee -a $LOG
tail -4 $OUT/check.out
