"""Thorough tier, on top of the Verus run (which stays the deciding step):

bounded_search(pid, known)   bounded differential search on the REAL crate (built from the working tree with the
                             `verif` feature) against executable oracles of the property.  Labelled bounded; it is
                             never counted among the discharged obligations.  Its value: it exercises what the
                             proof only assumes (the shims of bytes, tokio, bincode, memmap2, DashMap, the World).
strength_audit(pid)          applies every recorded property-breaking change (audit/*.diff, seeded/*/patch.diff) to a
                             scratch copy of the working tree and runs the quick check against the copy: each must be
                             reported (exit 1).  A survivor does not fail the property check -- the property still
                             holds on the tree -- but it is listed in the evidence.
"""
import concurrent.futures
import json
import os
import shutil
import subprocess
import sys
import tempfile

VERIF = os.path.dirname(os.path.dirname(os.path.abspath(__file__)))
REPO = os.environ.get("VERIF_REPO", "/repo")

D9_OPS = "set k0 v; set k1 v; set k2 v; set k3 v; set k4 v; set k5 v; set k6 v; set k7 v; set k8 v; del k0; get k0; merge; get k0; reopen; get k0"

STORE = ("C01", "C02", "C03", "C04", "C05", "C09", "C12", "C13", "C14", "C17", "C19", "C20")   # C18 has its own scenario only
SCENARIOS = {
    # pid -> list of (name, argv, counts-as-evaluations)
    "C07": [("frame-search", ["frame-search"]), ("frame-deep", ["frame-deep", "200000"])],
    "C08": [("frame-search", ["frame-search"]), ("conn-search", ["conn-search"]), ("decimal-search", ["decimal-search", "10000000"])],
    "C17": [("store-closed", ["store-closed"])],
    "C15": [("server-slots", ["server-slots"]) for _ in range(3)],
    "C18": [("store-background", ["store-background"]) for _ in range(3)],
    "C16": [("server-shutdown", ["server-shutdown", str(i)]) for i in range(1, 7)],
    "C04": [("store-concurrent", ["store-concurrent", str(i), "1500"]) for i in range(1, 9)],
    "C10": [("frame-search", ["frame-search"]), ("frame-deep", ["frame-deep", "200000"]), ("server-hostile", ["server-hostile"])] + [("server-search", ["server-search", str(i)]) for i in range(4)],
    "C06": [("frame-search", ["frame-search"]), ("conn-search", ["conn-search"]), ("client-search", ["client-search"])] + [("server-search", ["server-search", str(i)]) for i in range(24)],
}
# run by the QUICK tier too, after every obligation was discharged: properties whose statement quantifies over interleavings, which
# no contract of a sequential verifier sees (e.g. how long a key-directory guard is held).  Bounded, never counted as proved.
QUICK_SCENARIOS = {
    "C04": [("store-concurrent", ["store-concurrent", str(i), "1500"]) for i in (3, 5, 7)],
}
KNOWN_SCENARIOS = {
    # scenarios that re-confirm an open known finding on the real code: (kind, argv)
    "C20": [("torn-append", ["store-torn-append"]),
            ("wedged", ["store-history", "0", "all", "wedged", "set a 1; precreate-hint 2; merge; !set b 2; !get b"])],
    "C05": [("tombstone-dropped", ["store-history", "250", "frag50", "tombstone-dropped", D9_OPS])],
}
N_SEEDS = int(os.environ.get("VERIF_THOROUGH_SEEDS", "48"))


def _json_lines(text):
    out = []
    for line in text.splitlines():
        if line.startswith("{"):
            try:
                out.append(json.loads(line))
            except ValueError:
                pass
    return out


def _run(binary, argv, timeout=900, prop=None):
    try:
        env = dict(os.environ)
        if prop:
            env["VERIF_PROP"] = prop
        p = subprocess.run([binary] + argv, stdout=subprocess.PIPE, stderr=subprocess.PIPE, text=True, timeout=timeout, env=env)
        return p.returncode, p.stdout, p.stderr
    except subprocess.TimeoutExpired:
        return -999, "", "timeout"


def bounded_search(pid, known_kinds, quick=False):
    import witness
    binary = witness.build()
    runs = []
    findings = []       # concrete inputs that contradict pid and are not a listed known finding
    confirmed = []      # open known findings reproduced on the real code
    jobs = []
    for name, argv in (QUICK_SCENARIOS if quick else SCENARIOS).get(pid, []):
        jobs.append((name, argv))
    if pid in STORE and not quick:
        base = int(os.environ.get("VERIF_SEED", "0") or 0)
        for s in range(N_SEEDS):
            jobs.append(("store-search", ["store-search", str(base * 1000 + s)]))
    with concurrent.futures.ThreadPoolExecutor(max_workers=16) as ex:
        results = list(ex.map(lambda j: (j, _run(binary, j[1], prop=(pid if j[0] == "store-search" else None))), jobs))
    for (name, argv), (rc, out, err) in results:
        js = _json_lines(out)
        last = js[-1] if js else {}
        rec = {"scenario": name, "argv": argv[1:], "exit": rc, "searched": last.get("searched"), "found": bool(last.get("found"))}
        runs.append(rec)
        if rc != 0 and not last.get("found"):
            if name == "frame-deep" or rc != -999:
                findings.append({"found": True, "scenario": name, "argv": argv, "kind": "process-died", "props": pid,
                                 "observed": "replayer %s exited with %d: %s" % (" ".join(argv), rc, err[-300:]), "expected": "no panic / abort"})
            continue
        if last.get("found"):
            props = [x.strip() for x in str(last.get("props", "")).split(",") if x.strip()]
            if pid in props and last.get("kind") not in known_kinds:
                w = dict(last)
                w["scenario"] = "frame-one" if name == "frame-search" else name
                if name == "store-search":
                    w["seed"] = argv[1]
                findings.append(w)
    if quick:
        return {"label": "bounded (never counted as proved)", "runs": len(runs), "scenarios": runs, "findings": findings, "known_findings_reproduced": []}
    if pid in ("C01", "C02"):
        # the byte-level unit `log` sees bufio.rs only through shims: bounded Kani stand-in on the verbatim file
        import kani_standin
        k = kani_standin.run()
        runs.append({"scenario": "kani stand-in for bufio.rs", "argv": [], "exit": k.get("exit"), "searched": k.get("bounds"), "found": bool(k.get("failures")),
                     "verified_harnesses": k.get("verified"), "cached": k.get("cached", False)})
        if k.get("failures"):
            findings.append({"found": True, "scenario": "kani-bufio", "kind": "kani-bufio", "props": pid,
                             "observed": "Kani refuted a harness of kani/bufio: %s" % k.get("failed_checks"), "expected": "pos() tracks the logical offset"})
    if pid == "C03":
        import crashsearch
        r = crashsearch.search(binary)
        runs.append({"scenario": "crash (strace inject SIGKILL)", "argv": [], "exit": 0, "searched": r.get("searched"), "found": bool(r.get("found")), "evaluations": r.get("evaluations")})
        if r.get("found"):
            findings.append(r)
    if pid == "C18":
        import syncsearch
        r = syncsearch.search(binary)
        runs.append({"scenario": "sync interval (strace)", "argv": [], "exit": 0, "searched": r.get("searched"), "found": bool(r.get("found"))})
        if r.get("found"):
            findings.append(r)
    if pid == "C09":
        import durability
        r = durability.search(binary)
        runs.append({"scenario": "durability (strace)", "argv": [], "exit": 0, "searched": r.get("searched"), "found": bool(r.get("found"))})
        if r.get("found"):
            findings.append(r)
    for kind, argv in KNOWN_SCENARIOS.get(pid, []):
        rc, out, err = _run(binary, argv)
        js = _json_lines(out)
        hit = any(j.get("found") and j.get("kind") == kind for j in js)
        confirmed.append({"kind": kind, "argv": argv, "reproduced_on_real_code": hit,
                          "observed": next((j.get("observed") for j in js if j.get("found")), None)})
    return {"label": "bounded (never counted as proved)", "runs": len(runs), "scenarios": runs[:6] + ([{"more": len(runs) - 6}] if len(runs) > 6 else []),
            "findings": findings, "known_findings_reproduced": confirmed}


def _mutants(pid):
    out = []
    mj = os.path.join(VERIF, "audit", "mutants.json")
    if os.path.exists(mj):
        for name, m in sorted(json.load(open(mj)).items()):
            if m.get("property") == pid:
                out.append((name, os.path.join(VERIF, "audit", name + ".diff"), "written for the audit" + (" (benign: must NOT be reported)" if m.get("expect") == "no-alarm" else "")))
    sd = os.path.join(VERIF, "seeded")
    if os.path.isdir(sd):
        for d in sorted(os.listdir(sd)):
            meta = os.path.join(sd, d, "meta.json")
            patch = os.path.join(sd, d, "patch.diff")
            if os.path.exists(meta) and os.path.exists(patch) and json.load(open(meta)).get("breaks_property") == pid:
                out.append((d, patch, "independent sub-agent"))
    return out


def audit_one(pid, name, patch, origin):
    """Applies one recorded change to a scratch copy of the working tree and runs the quick check of `pid` against it."""
    details = []
    if True:
        scratch = tempfile.mkdtemp(prefix="verif-audit-")
        try:
            subprocess.run(["rsync", "-a", "--exclude", "target", "--exclude", ".git", REPO + "/", scratch + "/repo/"], check=True)
            ap = subprocess.run(["patch", "-p1", "-s", "--no-backup-if-mismatch", "-i", patch], cwd=scratch + "/repo",
                                stdout=subprocess.PIPE, stderr=subprocess.STDOUT, text=True)
            if ap.returncode != 0:
                return {"mutant": name, "origin": origin, "result": "patch does not apply to the current tree", "detected": None}
            env = dict(os.environ, VERIF_REPO=scratch + "/repo", VERIF_EVIDENCE_DIR=scratch + "/ev", VERIF_REPLAY_DIR=scratch + "/replays",
                       VERIF_GEN_DIR=scratch + "/gen", VERIF_TIER="quick")
            p = subprocess.run([sys.executable, os.path.join(VERIF, "check"), pid, "--tier", "quick"], env=env,
                               stdout=subprocess.PIPE, stderr=subprocess.STDOUT, text=True)
            vio = [l for l in p.stdout.splitlines() if l.startswith("VIOLATION")]
            obl = [l for l in p.stdout.splitlines() if l.startswith("obligation ")]
            details.append({"mutant": name, "origin": origin, "exit": p.returncode, "detected": p.returncode == 1 and bool(vio),
                            "reported": [l.split(" not discharged")[0] for l in obl][:4] or [l[:160] for l in p.stdout.splitlines()[-3:]],
                            "with_failing_input": any(not v.rstrip().endswith("no-failing-input-found") for v in vio)})
        finally:
            shutil.rmtree(scratch, ignore_errors=True)
    return details[0]


def strength_audit(pid, workers=None):
    workers = workers or int(os.environ.get("VERIF_AUDIT_WORKERS", "3"))
    muts = _mutants(pid)
    if workers > 1:
        with concurrent.futures.ThreadPoolExecutor(max_workers=workers) as ex:
            details = list(ex.map(lambda m: audit_one(pid, *m), muts))
    else:
        details = [audit_one(pid, *m) for m in muts]
    benign = [d for d in details if "benign" in d.get("origin", "")]
    applicable = [d for d in details if d.get("detected") is not None and d not in benign]
    return {"mutants": len(applicable), "detected": len([d for d in applicable if d["detected"]]),
            "survivors": [d["mutant"] for d in applicable if not d["detected"]],
            "benign_changes": len(benign), "benign_reported": [d["mutant"] for d in benign if d.get("exit") != 0],
            "details": details}
