"""Per-property configuration of the check driver.

units          generated Verus files that carry obligations of the property
label_prefixes labelled obligations whose label starts with one of these count for the property
               (in addition: every unlabelled / implicit obligation of a function tagged with the id)
"""

T = {
    "T1": "T1 Verus 0.2026.09.13, Z3, rustc 1.98.1 and vstd's specifications of core/alloc (Vec, Option, Result, slices, checked_*, try_into, ranges)",
    "T2": "T2 std::io::Cursor<T>: new/position/set_position/get_ref read and write an abstract (pos, inner) pair (assume_specification on the real type)",
    "T3": "T3 bytes::Buf for Cursor<T: AsRef<[u8]>> and &mut B: remaining/has_remaining/chunk/advance/get_u8/copy_to_bytes as in prelude/net_prelude.rs (external_trait_specification on the real trait; advance/get_u8/copy_to_bytes carry their panic conditions as preconditions)",
    "T4": "T4 bytes::Bytes / BytesMut: opaque value with a Seq<u8> view",
    "T5": "T5 String::from_utf8(v) is Ok(s) iff utf8_ok(v), and then s.as_bytes() == v; from_utf8_lossy never panics (value unconstrained)",
    "T5b": "T5b `&[u8] ==/!= &[u8; N]` compares the byte sequences (axiom_slice_array_eq over vstd's eq_spec)",
    "T13": "T13 machine arithmetic is verified as machine arithmetic (overflow checked by Verus); usize is assumed to be 64 bits (global size_of usize == 8)",
    "T14": "T14 Vec::with_capacity(n) is redirected (rule R-prealloc) to a wrapper that requires n <= number of input bytes present: the resource contract behind C07.prealloc; allocator behaviour for such n is trusted",
    "RW": "the rewrite rules of DESIGN.md section 2.2 preserve the meaning of the extracted text (each application is logged in rewrite_rules_applied)",
    "DERIVE": "derive-generated code (Debug, PartialEq, Eq) and thiserror's Display impls are not verified; the From impls for #[from] fields are regenerated literally",
}

PROPS = {
    "C07": {
        "units": ["resp"],
        "label_prefixes": ["C07."],
        "level": "proof",
        "trusted": ["T1", "T2", "T3", "T4", "T5", "T5b", "T13", "T14", "RW", "DERIVE"],
        "assumptions": [
            "stack use is bounded by MAX_DEPTH (32) recursion levels; the size of one stack frame is compiler-determined and trusted",
            "panics inside dependencies under their stated preconditions (bytes, alloc) are excluded by T2-T5, not proved",
            "String::from_utf8_lossy / to_string on the NotInteger error path allocate; allocation failure is out of scope",
        ],
    },
}
