"""Per-property configuration of the check driver.

units          generated Verus files that carry obligations of the property
label_prefixes labelled obligations whose label starts with one of these count for the property
               (in addition: every unlabelled / implicit obligation of a function tagged with the id)
"""

T = {
    "T1": "T1 Verus 0.2026.09.13, Z3, rustc 1.98.1 and vstd's specifications of core/alloc (Vec, Option, Result, slices, checked_*, try_into, ranges)",
    "T2": "T2 std::io::Cursor<T>: new/position/set_position/get_ref read and write an abstract (pos, inner) pair (assume_specification on the real type)",
    "T3": "T3 bytes::Buf for Cursor<T: AsRef<[u8]>> and &mut B: remaining/has_remaining/chunk/advance/get_u8/copy_to_bytes as in prelude/net_prelude.rs (external_trait_specification on the real trait; advance/get_u8/copy_to_bytes carry their panic conditions as preconditions)",
    "T4": "T4 bytes::Bytes / BytesMut: opaque value with a Seq<u8> view",
    "T5": "T5 String::from_utf8(v) is Ok(s) iff utf8_ok(v), and then s.as_bytes() == v; from_utf8_lossy never panics (value unconstrained)",
    "T5b": "T5b `&[u8] ==/!= &[u8; N]` compares the byte sequences (axiom_slice_array_eq over vstd's eq_spec)",
    "T13": "T13 machine arithmetic is verified as machine arithmetic (overflow checked by Verus); usize is assumed to be 64 bits (global size_of usize == 8)",
    "T14": "T14 Vec::with_capacity(n) is redirected (rule R-prealloc) to a wrapper that requires n <= number of input bytes present: the resource contract behind C07.prealloc; allocator behaviour for such n is trusted",
    "T4b": "T4b shim BytesMut (same method names as bytes::BytesMut): with_capacity/is_empty/advance/`&b[..]` over a Seq<u8> view; advance carries its panic condition as a precondition",
    "T6": "T6 Connection::write_decimal (R-stub-body; `write!` is outside Verus's subset) writes the canonical decimal text of its i64 argument; bounded stand-in: Kani harness on the verbatim body (thorough tier), never counted as proved",
    "T7": "T7 shim tokio::io::BufWriter<S>: write_u8/write_all append to a ghost output on Ok, flush marks it delivered, read_buf moves a NONDETERMINISTIC non-empty prefix of the ghost incoming stream into the buffer (0 exactly at end of stream); I/O errors possible at every call unless the ghost flag healthy() holds",
    "T13b": "T13b a slice / Vec of Frame holds at most isize::MAX elements; a Bytes holds at most isize::MAX bytes; every String is valid UTF-8",
    "RW": "the rewrite rules of DESIGN.md section 2.2 preserve the meaning of the extracted text (each application is logged in rewrite_rules_applied)",
    "DERIVE": "derive-generated code (Debug, PartialEq, Eq) and thiserror's Display impls are not verified; the From impls for #[from] fields are regenerated literally",
}

PROPS = {
    "C07": {
        "units": ["resp"],
        "label_prefixes": ["C07."],
        "level": "proof",
        "trusted": ["T1", "T2", "T3", "T4", "T5", "T5b", "T13", "T14", "RW", "DERIVE"],
        "assumptions": [
            "stack use is bounded by MAX_DEPTH (32) recursion levels; the size of one stack frame is compiler-determined and trusted",
            "panics inside dependencies under their stated preconditions (bytes, alloc) are excluded by T2-T5, not proved",
            "String::from_utf8_lossy / to_string on the NotInteger error path allocate; allocation failure is out of scope",
        ],
    },
    "C08": {
        "units": ["resp", "net"],
        "label_prefixes": ["C08."],
        "level": "proof",
        "trusted": ["T1", "T2", "T3", "T4", "T4b", "T5", "T5b", "T6", "T7", "T13", "T13b", "T14", "RW", "DERIVE"],
        "assumptions": [
            "C08.write.spec fixes the canonical RESP encoding: a writer changed to a different encoding that still round-trips would be flagged (the wire format is fixed by the protocol)",
            "equality of decoded and written frames is proved on their views (fview); injectivity of String::as_bytes / Bytes content is T5/T4",
            "real sockets and tokio's BufWriter implementation are outside (T7); Display for i64 is covered only by T6's bounded stand-in",
            "in unit net the contracts of frame.rs are assumed (R-stub-body) because they are verified in unit resp, which this check also runs",
        ],
    },
}
