"""Per-property configuration of the check driver.

units          generated Verus files that carry obligations of the property
label_prefixes labelled obligations whose label starts with one of these count for the property
               (in addition: every unlabelled / implicit obligation of a function tagged with the id)
"""

T = {
    "T1": "T1 Verus 0.2026.09.13, Z3, rustc 1.98.1 and vstd's specifications of core/alloc (Vec, Option, Result, slices, checked_*, try_into, ranges)",
    "T2": "T2 std::io::Cursor<T>: new/position/set_position/get_ref read and write an abstract (pos, inner) pair (assume_specification on the real type)",
    "T3": "T3 bytes::Buf for Cursor<T: AsRef<[u8]>> and &mut B: remaining/has_remaining/chunk/advance/get_u8/copy_to_bytes as in prelude/net_prelude.rs (external_trait_specification on the real trait; advance/get_u8/copy_to_bytes carry their panic conditions as preconditions)",
    "T4": "T4 bytes::Bytes / BytesMut: opaque value with a Seq<u8> view",
    "T5": "T5 String::from_utf8(v) is Ok(s) iff utf8_ok(v), and then s.as_bytes() == v; from_utf8_lossy never panics (value unconstrained)",
    "T5b": "T5b `&[u8] ==/!= &[u8; N]` compares the byte sequences (axiom_slice_array_eq over vstd's eq_spec)",
    "T13": "T13 machine arithmetic is verified as machine arithmetic (overflow checked by Verus); usize is assumed to be 64 bits (global size_of usize == 8)",
    "T14": "T14 Vec::with_capacity(n) is redirected (rule R-prealloc) to a wrapper that requires n <= number of input bytes present: the resource contract behind C07.prealloc; allocator behaviour for such n is trusted",
    "T4b": "T4b shim BytesMut (same method names as bytes::BytesMut): with_capacity/is_empty/advance/`&b[..]` over a Seq<u8> view; advance carries its panic condition as a precondition",
    "T6": "T6 Connection::write_decimal (R-stub-body; `write!` is outside Verus's subset) writes the canonical decimal text of its i64 argument; bounded stand-in (thorough tier, never counted as proved): 10^7 values (all powers of ten and two with neighbours, extremes, pseudo-random) through the real write_frame(Integer(v)) against an independent decimal conversion. Kani on the verbatim body did not finish in 15 minutes (core::fmt), so no Kani result is claimed",
    "T7": "T7 shim tokio::io::BufWriter<S>: write_u8/write_all append to a ghost output on Ok, flush marks it delivered, read_buf moves a NONDETERMINISTIC non-empty prefix of the ghost incoming stream into the buffer (0 exactly at end of stream); I/O errors possible at every call unless the ghost flag healthy() holds",
    "T13b": "T13b a slice / Vec of Frame holds at most isize::MAX elements; a Bytes holds at most isize::MAX bytes; every String is valid UTF-8",
    "T8": "T8 shim DashMap (finite map; insert/remove/get/entry().or_default(); R-dashmap-iter enumerates some duplicate-free key list), RefCell::borrow_mut never fails, AtomicCell<bool>, parking_lot::Mutex::lock and crossbeam ArrayQueue hand out objects satisfying their invariant w.r.t. the current World (rely half of rely/guarantee; pool occupancy is a ghost counter in the World), BTreeSet<u64>",
    "T9": "T9 shim lru::LruCache: a partial map that may forget any entry at any time (LogDir::{read,copy} are verified verbatim against it in unit log: cache transparency is proved)",
    "T10": "T10 shim memmap2: map(&file) yields the file's content at the time of the call; a mapping never changes afterwards",
    "T11": "T11 bincode as an abstract codec: what is written for an entry is determined by (tstamp, key, value) resp. (tstamp, len, pos, key); its length depends only on the entry (enc_len); deserialize_from consumes exactly one encoding; the serde derives of DataFileEntry / HintFileEntry are replaced by trusted view functions",
    "T12": "T12 the World (prelude/store_prelude.rs): an entry-level model of the store directory written for this verification -- create_new+append creates a fresh empty file or fails, append extends a file at its end or fails leaving a possibly torn tail, flush moves buffered records into the file, remove_file removes one whole file, open/metadata/sorted_fileids read it; LogWriter::new / LogIterator::new (lseek on a regular file) do not fail; utils::{datafile_name,hintfile_name,sorted_fileids,timestamp} are stubs (format!, read_dir, chrono)",
    "T12S": "T12S durability in the World: File::sync_all / LogWriter::sync set `synced` of that one file to its current record count on Ok (and never beyond it on Err); append / flush never change `synced`; BufWriter::get_ref returns the file the writer was created on",
    "TBUF": "TBUF in unit log the position-tracking wrappers of bufio.rs are shims whose pos() is the logical offset; unit bufio VERIFIES the whole of src/storage/bitcask/bufio.rs (10 functions) against shim Read / Write / Seek traits with a ghost logical position (a call moves it by exactly the number of bytes reported; a failed read / write moves nothing, as std documents; positions stay below 2^63): pos() == logical position after new / read / write / flush / seek, no overflow. The link between the two units' shims is by reading; a Kani harness on the verbatim file (thorough tier, bounded) exercises the real std BufReader / BufWriter over a Cursor",
    "TLOG": "TLOG in unit store the World-level (record-level) contracts of the log.rs API (contracts/log.spec) are ASSUMED (R-stub-body); unit log verifies the bodies of log.rs against local byte-level contracts (contracts/log_local.spec): counter arithmetic, slice bounds after re-mapping, cache transparency, open flags, (pos,len) bookkeeping, flush before acknowledgement, end-of-file detection. The step from the byte level to the record level is machine-checked as pure lemmas in unit refine over an explicit abstraction (the records of a file are what decoding its bytes from the front yields): refine_append, refine_read, refine_next, refine_next_none, refine_copy. What remains by reading: that the hypotheses / conclusions of those lemmas are the clauses of the two spec files, and the durability / torn-tail part of the World (T12, T12S)",
    "TARC": "R-arc: Arc<Context>/Arc<Mutex<Writer>>/Arc<ArrayQueue<Reader>> are read as single owners; that Writer, Readers and Handle share ONE Context (wired by the unverified Bitcask::open) is assumed -- as a fact it is used in exactly one place, axiom_arc_shared_context (prelude/store_entry_views.rs), called in Handle::get. No interleaving is explored",
    "T13s": "T13 environment bounds assumed as World well-formedness: every file shorter than 2^62 bytes, fewer than 2^48 records per file, file ids below 2^62",
    "TKV": "TKV unit cmd sees the storage engine through a shim of the KeyValueStorage trait whose contract says: set / get / del that return Ok have exactly the map effect on a ghost map (prelude/cmd_prelude.rs). Unit store states the SAME contract on the real trait declaration of src/storage.rs (contracts/storage.spec, labels C01.kv.*; the ghost map is kv_map(self, World)) and PROVES it for `impl KeyValueStorage for Handle` and, below it, for Handle::{put,get,delete} (C01.handle.*), whose map is model(key directory of the Handle's Writer, files). What remains trusted: that the two statements of the trait contract (one per unit, Bytes compared by content in both) say the same thing -- a textual correspondence of three postconditions -- and TARC",
    "TSPAWN": "TSPAWN rule R-outline: the closure handed to tokio::task::spawn_blocking is moved verbatim into a method of the same impl block and runs at the call site; awaiting the handle yields its value or a JoinError. Scheduling, cancellation and panics inside the closure are not modelled",
    "TCLOCK": "TCLOCK time and randomness as inputs: chrono::Local::now().time().hour() returns some hour below 24; rand's Uniform::new_inclusive(lo, hi).sample() returns a Duration within [lo, hi]; tokio::time::sleep(d) completes after d (how much later is the runtime's business); std::time::Duration is a number of milliseconds",
    "TSEM": "TSEM tokio::sync::Semaphore as ghost counters (prelude/slots_prelude.rs): acquire completes only when a permit is available and takes it in one atomic step, the permit is held by the returned guard; forget destroys the guard without giving the permit back; add_permits(n) makes n more permits available; the semaphore is never closed (nothing in src/ calls close), so acquire never fails. tokio::spawn starts the task it is given",
    "TDROP": "TDROP Rust runs `Drop for Handler` exactly once when a connection task ends -- by returning, by an error, or while unwinding from a panic -- and never otherwise (rule R-drop reads the destructor as an ordinary method so that it can carry the ghost argument; Verus does not model implicit drops). A SemaphorePermit guard that is dropped without forget gives its permit back: the ghost model records such a guard as `held`, and the loop invariant demands held == 0",
    "TSELECT": "TSELECT rule R-select: tokio::select! { p1 = f1 => e1, p2 = f2 => e2 } is read as `match <nondeterministic> { 0 => { let p1 = f1.await; e1 } _ => { let p2 = f2.await; e2 } }`; rule R-mut-self: `mut self` becomes a local initialised from self; rule R-tryfrom-call routes Command::try_from(frame) in server.rs through a VERIFIED forwarding wrapper (work-around for a crash of this Verus build); crate::shutdown::Shutdown is a shim (is_shutdown returns a ghost flag, recv returns with the flag set)",
    "TITER": "TITER std::vec::IntoIter (command::Parser) through vstd's IteratorSpec (remaining()); `\"DEL\" == bytes` compares the bytes (bytes: impl PartialEq<Bytes> for &str); std::str::from_utf8 succeeds exactly on utf8_ok input; UTF-8 encodes ASCII text as the same bytes (axiom_ascii_bytes / axiom_string_ascii)",
    "RW": "the rewrite rules of DESIGN.md section 2.2 preserve the meaning of the extracted text (each application is logged in rewrite_rules_applied)",
    "DERIVE": "derive-generated code (Debug, PartialEq, Eq) and thiserror's Display impls are not verified; the From impls for #[from] fields are regenerated literally",
}

PROPS = {
    "C07": {
        "units": ["resp"],
        "label_prefixes": ["C07."],
        "level": "proof",
        "trusted": ["T1", "T2", "T3", "T4", "T5", "T5b", "T13", "T14", "RW", "DERIVE"],
        "assumptions": [
            "stack use is bounded by MAX_DEPTH (32) recursion levels; the size of one stack frame is compiler-determined and trusted",
            "panics inside dependencies under their stated preconditions (bytes, alloc) are excluded by T2-T5, not proved",
            "String::from_utf8_lossy / to_string on the NotInteger error path allocate; allocation failure is out of scope",
        ],
    },
    "C08": {
        "units": ["resp", "net"],
        "label_prefixes": ["C08."],
        "level": "proof",
        "trusted": ["T1", "T2", "T3", "T4", "T4b", "T5", "T5b", "T6", "T7", "T13", "T13b", "T14", "RW", "DERIVE"],
        "assumptions": [
            "C08.write.spec fixes the canonical RESP encoding: a writer changed to a different encoding that still round-trips would be flagged (the wire format is fixed by the protocol)",
            "equality of decoded and written frames is proved on their views (fview); injectivity of String::as_bytes / Bytes content is T5/T4",
            "real sockets and tokio's BufWriter implementation are outside (T7); Display for i64 is covered only by T6's bounded stand-in",
            "in unit net the contracts of frame.rs are assumed (R-stub-body) because they are verified in unit resp, which this check also runs",
        ],
    },
    "C06": {
        "units": ["resp", "net", "cmd", "store"], "label_prefixes": ["C06.", "C08.", "C07.", "C01.kv.", "C01.handle."], "level": "proof",
        "trusted": ["T1", "T2", "T3", "T4", "T4b", "T5", "T5b", "T6", "T7", "T13", "T13b", "T14", "TKV", "TSPAWN", "TSELECT", "TITER", "RW", "DERIVE"],
        "assumptions": [
            "what is proved, per request: (1) Command::try_from decodes a frame exactly as spec_command says (array of bulk strings, command name compared byte for byte, keys UTF-8, values arbitrary bytes, arity checked) -- C06.decode.*; (2) Get/Set/Del::apply on Ok have written exactly ONE frame, encode(reply(cmd, map before)), flushed it, left the unread input untouched and changed the map to effect(cmd, map before) -- C06.*.reply; DEL counts its keys in turn (del_fold) -- C06.del.count_in_turn; (3) read_frame decodes the first complete frame of the input regardless of how it is segmented and leaves the rest for the next call (C08.read_frame.*, unit net), so pipelined requests are seen one by one in order",
            "(4) Handler::run (src/net/server.rs, verified verbatim after R-select and R-mut-self): for an input that consists of exactly N well-formed requests, in whatever segmentation the stream shim delivers it, an Ok exit has written exactly replies(first `served` requests) in order, nothing else, and changed the map accordingly (C06.run.pairing); served == N when the loop ended because the client closed the stream (C06.run.all_answered_at_clean_end) and served < N only if the shutdown signal had been received (C06.run.no_early_stop); the loop terminates (decreases N - served). theorem_pipeline (C06.pipeline, pure lemma) ties this to commands: the wire image of any list of well-formed commands is such an input and the frame-by-frame replies equal the command-level replies_of / map_of",
            "R-select reads tokio::select! as a nondeterministic choice of ONE arm whose future runs to completion (a polled-then-dropped read_frame is not modelled; in Handler::run the other arm returns, so nothing it did is observable); Shutdown is a shim with a ghost flag fired(); Listener / Server (accept loop, connection limit, shutdown hand-shake) are not extracted",
            "an input with trailing garbage or a malformed request is outside the precondition: run returns Err at the first bad frame (not claimed)",
            "client side: `impl From<Get/Set/Del> for Frame` (the request frames src/net/client.rs sends) are verified to build exactly req_frame(cmd), the request frame theorem_pipeline is stated over (C06.client.*); the three Client methods themselves (write the frame, read one reply, map it to the return type) are not extracted (anyhow! macro, iterator adapters)",
            "an operation of the storage engine that fails ends the connection (apply returns Err before writing a reply); replies after a failed engine call are not specified",
            "termination of the key-collecting loop in `impl TryFrom<Parser> for Del` is not proved (exec_allows_no_decreases_clause): vstd's termination measure for vec::IntoIter needs a precondition that a trait method cannot declare",
            "in unit cmd the contracts of frame.rs and connection.rs are assumed (R-stub-body) because they are verified in units resp and net, which this check also runs",
        ],
    },
    "C16": {
        "units": ["net", "cmd", "slots"], "label_prefixes": ["C16.", "C06.run.pairing", "C08.write.spec", "C08.write.single_spec", "C08.write.array_spec", "C06.apply.reply", "C06.get.reply", "C06.set.reply", "C06.del.reply"],
        "level": "proof",
        "trusted": ["T1", "T2", "T3", "T4", "T4b", "T5", "T5b", "T6", "T7", "T13", "T13b", "T14", "TKV", "TSPAWN", "TSELECT", "TITER", "RW", "DERIVE"],
        "assumptions": [
            "SCOPE-LIMITED: clauses 2 and 3 of the statement, for one connection; clause 1 (the server stops and run returns within bounded time) is a liveness property of the tokio runtime and is NOT claimed. Proved: Handler::run (verified verbatim after R-select) can leave its loop on the shutdown signal only BETWEEN two requests -- at the loop head or in the select! arm that has not started reading -- and at every Ok exit, those included, (a) the bytes written to the connection are exactly the replies to the first `served` requests, each one a complete frame that write_frame has flushed (C06.run.pairing over C08.write.spec: flushed == everything written), so a client receives only whole replies before the stream ends; (b) the engine's map is exactly the result of those `served` requests (map_after): every command whose reply was sent is reflected in the store. R-select reads tokio::select! as a choice of ONE arm run to completion: that read_frame, if it is the arm that loses, has consumed nothing that matters is argued (the other arm returns from run, and read_buf is cancel-safe), not machine-checked",
            "NOT covered: the Listener / Server side of the handshake (broadcast of the signal, waiting for the handlers through the mpsc channel, the accept loop), time bounds, connections that are mid-frame (read_frame's error on a half-received frame is C08's), persistence of the acknowledged data beyond the process (C09)",
            "bounded companion on the real code (thorough tier / witness): the real Server with the shutdown future fired at pseudo-random moments in the middle of 200 pipelined SETs; the bytes received must be whole +OK replies and every acknowledged SET must be in the reopened store",
        ],
    },
    "C10": {
        "units": ["resp", "net", "cmd", "cmd10"], "label_prefixes": ["C10.", "C07.", "C06.decode.", "C06.key."], "level": "proof",
        "trusted": ["T1", "T2", "T3", "T4", "T4b", "T5", "T5b", "T6", "T7", "T13", "T13b", "T14", "TKV", "TSPAWN", "TSELECT", "TITER", "RW", "DERIVE"],
        "assumptions": [
            "SCOPE-LIMITED to ONE connection: (1) for EVERY byte stream -- garbage, unknown commands, wrong arity, non-UTF-8 keys, truncated frames, nesting beyond the limit, absurd lengths -- the code that handles it (all of frame.rs, connection.rs except write_decimal, command.rs, command/*.rs, Handler::run) is verified to be free of panics, out-of-bounds accesses, arithmetic overflow, unbounded recursion and attacker-sized allocations (the body obligations and the C07.* obligations of every function tagged C10; Handler::run is verified a second time, in unit cmd10, under a contract WITHOUT any assumption on the input); (2) C10.run.store_changes_only_by_decoded_commands: whenever run returns Ok or a protocol error (Error::Frame / Error::Command) the engine's map is exactly the fold of the effects of the commands that were decoded (each one a well-formed SET / GET / DEL by C06.decode.*) and the bytes written are exactly the replies to them -- nothing a client sends changes the store in any other way; (3) on malformed input run returns, which drops the connection. Environmental errors of apply (Io / Storage / AsyncTask: C10.apply.errors_are_environmental, C10.write_frame.errors_are_io) are outside clause (2): the command in flight may or may not have taken effect",
            "NOT covered (no function-level contract expresses it): that the PROCESS keeps running and OTHER connections keep being served (task isolation by tokio, panic containment, the accept loop, the connection limit), concurrency with other connections, memory exhaustion by many connections, and the stack depth actually available for MAX_DEPTH nested arrays",
            "termination of Handler::run on arbitrary input is not proved (a connection may stay open); the loop is verified with exec_allows_no_decreases_clause in unit cmd10 (unit cmd proves termination for well-formed input)",
        ],
    },
    "C01": {
        "units": ["store", "log", "bufio", "refine"], "label_prefixes": ["C01.", "C04.read.valid_location", "C04.copy.valid_location"], "level": "proof",
        "trusted": ["T1", "T4", "T8", "T11", "T12", "T13", "T13s", "TLOG", "TBUF", "TARC", "RW", "DERIVE"] + ["T9", "T10"],
        "assumptions": [
            "step contracts are proved on Writer::{put,delete,merge,new_active_datafile} and Reader::get, and carried up through Handle::{put,delete,get,merge,sync} (C01.handle.*: the Mutex shim exposes the protected Writer as a view, R-interior reads the Handle's `&self` as `&mut self`) to `impl KeyValueStorage for Handle` (C01.kv.*, stated on the trait declaration of src/storage.rs); Handle::get relies on TARC in ONE named place (axiom_arc_shared_context: a pooled Reader shares the Writer's Context); 'for every history' follows because every operation requires and re-establishes the same invariant (Index + WriterWf + StatsWeak) and states its effect on the whole map",
            "Err results are C20's business; after a failed append the torn-tail finding (known_findings.txt) applies",
            "configurations: max_file_size is an unconstrained u64 in every contract; reader-cache size enters only through T9; concurrency only through T8",
        ],
    },
    "C02": {
        "units": ["store", "log", "bufio", "refine"], "label_prefixes": ["C02.", "C01.write.appended", "C01.append.index_exact", "C01.bufio.", "C01.refine.append"], "level": "proof",
        "trusted": ["T1", "T4", "T8", "T11", "T12", "T13", "T13s", "TLOG", "TBUF", "TARC", "RW", "DERIVE"],
        "assumptions": [
            "start-up is specified independently of the code as spec_recover(w) = fold over the directory log (files in ascending id order, hint file instead of data file where one exists; a value binds, a tombstone unbinds); rebuild_storage is proved to compute exactly it, and put / delete / rollover are proved to keep spec_recover(w) == key directory",
            "Bitcask::open is verified verbatim (rules: R-arc for values -- Arc::new(x) is x, an Arc clone is an equal value --, the reader pool is created in the World, R-thread replaces the spawn of the background thread by a shim without effect on the World): the Handle it returns denotes exactly the recovered map (C02.open.recovered_map: hmodel == recover_model of the directory it found), its Writer satisfies the invariant every operation requires, the pool is full and non-empty (ArrayQueue::new would panic on capacity 0: C02.open.pool_capacity_positive), the statistics are exact (C19.open.exact), exactly one fresh empty data file with an id above every id ever used is created (C14.open.one_new_empty_file), and the directory log is unchanged, so start-up would compute the same key directory again (C02.open.log_unchanged). Together with C01.handle.* / C02.*.recoverable this closes 'reopen reads what was there at close' at the level of the public Handle. Precondition: a well-formed directory with consistent hint files whose highest id ever used still exists (C14.ids.top_kept) or that is empty. NOT covered: the background thread (its merges / syncs are Handle operations like any other), Drop for Bitcask, Config::open (a one-line call of Bitcask::open)",
            "merges: that a merge keeps spec_recover == key directory is C05's obligation, not claimed here",
            "hint files are assumed consistent (hints_ok) at open; merge is proved to establish this (C12)",
        ],
    },
    "C04": {
        "units": ["store", "log"], "label_prefixes": ["C04.", "C01.read.exact", "C01.reader.at_exact", "C02.open.usable", "C02.open.pool_capacity_positive"], "level": "proof",
        "trusted": ["T1", "T4", "T8", "T11", "T12", "T13", "T13s", "TLOG", "TARC", "RW", "DERIVE"] + ["T9", "T10"],
        "assumptions": [
            "SCOPE: only the sequential rely/guarantee obligations are machine-checked: every key-directory entry published by put / merge names a complete, flushed record (Index at every guard release, C04.*.valid_location at every read/copy), LogReader's slice is in bounds after the conditional re-map whenever the FILE is long enough (C04.reader.slice_in_bounds), append flushes before returning (C04.append.flushed_before_ack), Handle::get returns its reader to the pool on every path and the `expect` on push cannot fail (C04.get.pool_preserved)",
            "bounded companion on the real code (thorough tier / witness, never counted as proved): writer, reader and merging threads on one store with 200-byte files; single writer per key, every read checked against real-time bounds (at least the last write completed before it started, at most the last write started when it ended); ~5 million operations per thorough run, schedules chosen by the OS",
            "NOT covered: actual interleavings, DashMap shard locking, memory ordering, the real ArrayQueue, termination of the spin loop in Handle::get (exec_allows_no_decreases_clause), linearizability itself. Argued only: writers are serialised by the Mutex; a reader's linearisation point is its keydir.get; published records are immutable (C14)",
        ],
    },
    "C12": {
        "units": ["store"], "label_prefixes": ["C12.", "C02.hintfile", "C02.datafile", "C02.rebuild", "C05.copy.identical_record"], "level": "proof",
        "trusted": ["T1", "T4", "T8", "T11", "T12", "T13", "T13s", "TLOG", "TARC", "RW", "DERIVE"],
        "assumptions": [
            "C12.hint_equiv (pure lemma): HintConsistent(w) implies spec_recover(w) == spec_recover_nohint(w); merge is proved to establish / keep HintConsistent for every output file, across in-loop rollovers; the loader is proved to compute the two folds",
            "removing every hint file is the World transformation hint := empty",
        ],
    },
    "C14": {
        "units": ["store", "log"], "label_prefixes": ["C14."], "level": "proof",
        "trusted": ["T1", "T4", "T8", "T11", "T12", "T13", "T13s", "TLOG", "TARC", "RW", "DERIVE"],
        "assumptions": [
            "(a) the World offers no overwrite / truncate / rename / reopen-for-write operation, and extracted code can only change the directory through it; (b) log::create is proved to open with exactly {append, create_new} and log::open with {read} (unit log); (c) every creation site satisfies C14.create.fresh (id above every id the directory ever contained; a hint file only for an existing data file without one); (d) after every Ok write / merge the active file's last record starts at or below max_file_size (C14.size.one_entry)",
            "'every id the directory has EVER contained': the World records every id ever created (`ever`); top_exists(w) says the file with the largest id ever used still exists. new_active_datafile, write and merge keep / establish it (C14.ids.top_kept), every unlink inside merge is followed by a ghost checkpoint that requires it at that very point (C14.unlink.top_kept: an output with a larger id exists throughout the removals), and rebuild_storage's id is then above every id ever used (second clause of C14.open.fresh_id). Since a kill leaves the World after a prefix of the World calls, this covers 'directories left by a crash' for the id clause at the call boundaries of write and of the removal loop; the copy loop of merge only creates files (ids above everything) and is covered by C14.create.fresh",
            "crash clause for the OTHER clauses (append-only, exclusive creation) needs nothing beyond (a)-(c): they are statements about each single file-system call",
            "code that is not extracted (Bitcask::open wiring, binaries) could open files another way",
        ],
    },
    "C15": {
        "units": ["slots"], "label_prefixes": ["C15."], "level": "proof",
        "trusted": ["T1", "T13", "TSEM", "TDROP", "RW", "DERIVE"],
        "assumptions": [
            "SCOPE-LIMITED to the slot ACCOUNTING. Proved on the real text of src/net/server.rs (unit slots): (1) every turn of the accept loop Listener::listen takes exactly one permit for good (acquire + forget) and then starts exactly one connection task that owns the Handler (C15.listen.one_permit_per_connection, a ghost checkpoint after tokio::spawn; the loop invariant is held == 0, avail >= 0, avail + owed == max, owed == handlers); (2) Drop for Handler gives back exactly one permit (C15.drop.returns_one_permit); (3) over the ghost counters, EVERY history of accept turns and handler ends that starts from a semaphore with max permits keeps handlers <= max and avail == max - handlers (theorem_slots, C15.limit_and_no_leak, by induction on the history): never more than max connections are served, and when all have gone all max permits are available again",
            "the steps are atomic operations of the semaphore, so interleavings of the accept loop with ending handlers are exactly the histories theorem_slots quantifies over; no scheduler is modelled and none is needed for the counters",
            "R-outline (pre-pass): the async block handed to tokio::spawn becomes an async method verif_conn_task(handler) of the same impl block, moved token for token; tokio::spawn receives its future. Handler::run itself is NOT re-verified here (signature only): that it never touches the semaphore is by inspection (its only use of limit_connections is the field's existence)",
            "the only exit of listen is the abort after accept failed beyond the back-off limit: there one permit has been taken and is owned by nobody (C15.listen.abort_exit states exactly that); the server is giving up at that point",
            "Server::new is verified too: the semaphore is created with exactly conf.max_connections permits and nothing is owed (C15.new.permits_are_max_connections) -- the initial state of theorem_slots (rules: `&format!(host:port)` -> a shim, Semaphore::new gets the ghost argument). NOT covered: Server::run (select over the accept loop and the shutdown future, then waiting for the handlers through the mpsc channel), a task that never ends (it keeps its slot, legitimately), panics are covered only through TDROP, and max_connections == 0 (then nothing is ever served)",
            "bounded companion on the real Server over loopback TCP (thorough tier / witness; never counted as proved): with max_connections = 2, connections that end by clean close, in the middle of a frame, after a malformed command and after a protocol error come and go; afterwards two connections must be served concurrently while a third is not served until one of them closes",
        ],
    },
    "C18": {
        "units": ["store"], "label_prefixes": ["C18."], "level": "proof",
        "trusted": ["T1", "T8", "T13", "TARC", "TSPAWN", "TSELECT", "TCLOCK", "RW", "DERIVE"],
        "assumptions": [
            "SCOPE-LIMITED to the DECISIONS of the two background tasks; every wall-clock clause of the statement ('within one check interval plus jitter plus scheduling slack', 'at least once per interval') is a property of tokio's timer and scheduler and is NOT claimed. Proved on the real text of src/storage/bitcask.rs (unit store): (1) Context::can_merge is false with policy `never`, true only if some file exceeds a trigger (dead bytes above the configured value, or fragmentation above it), and with policy `always` true exactly then (C18.can_merge.*); (2) merge_on_interval with policy `never` never hands a merge to the blocking pool and leaves the directory untouched (C18.merge_task.never_runs); otherwise every turn of its loop is one completed sleep whose duration lies in [interval - jitter, interval + jitter] (C18.merge_task.sleep_within_interval_and_jitter) followed by at most one merge, handed over only if can_merge said so and, with policy `always`, exactly if a trigger is exceeded (C18.merge_task.merge_iff_asked); (3) sync_on_interval does nothing unless the strategy is interval sync (C18.sync_task.only_with_interval_strategy); with it, every turn sleeps exactly the configured number of milliseconds (C18.sync_task.sleeps_the_configured_interval) and is followed by exactly one Handle::sync (C18.sync_task.one_sync_per_tick)",
            "ghost log BgLog (prelude/store_prelude.rs): the shims of tokio::time::sleep and tokio::task::spawn_blocking count wake-ups and hand-offs and record the last sleep; Duration is a number of milliseconds; `a - b` / `a + b` on Durations are read as methods (R-duration-op; the subtraction carries its panic condition, discharged from jitter <= interval); rand's Uniform::new_inclusive / sample return a value inside the bounds (TCLOCK)",
            "f64: Verus does not interpret float arithmetic or comparison. LogStatistics::fragmentation is an uninterpreted pure function of the three counters, `x > y` on f64 is an uninterpreted fixed relation (rule R-f64-cmp), Duration::mul_f64 by a factor in the documented range [0, 1] of merge.check_jitter yields at most the interval (precondition unit_range(check_jitter) of merge_on_interval: a jitter above 1 would make `interval - jitter` panic)",
            "the window policy is covered only by 'true only if a trigger is exceeded'; the hour of day is an unconstrained input (chrono shim)",
            "R-outline moves the closure of spawn_blocking (`move || handle.merge()` / `handle.sync()`) into a free function called at the hand-off; R-select reads select! as a choice of one arm; R-mut-param; the Handle clone is an equal value (R-arc). can_merge reads the statistics through the Handle's own Context, which under TARC is the Writer's",
            "NOT covered: background_tasks (builds the runtime and spawns the two tasks; Drop / shutdown wiring), errors of a background merge are only logged (the task keeps running), and time",
        ],
    },
    "C17": {
        "units": ["store"], "label_prefixes": ["C17."], "level": "proof",
        "trusted": ["T1", "T4", "T8", "T11", "T12", "T13", "T13s", "TLOG", "TARC", "TDROP", "RW", "DERIVE"],
        "assumptions": [
            "SCOPE: the first two clauses only -- closed ==> every Handle operation returns Err(Closed) and leaves the World unchanged; close sets the flag (R-interior: the AtomicCell store through &self is read as &mut self)",
            "Drop for Bitcask is verified as an ordinary method (R-drop): it sets the closed flag (C17.drop.closes_the_store); that Rust calls it when the store object goes away is TDROP, and that the flag it sets is the one every clone of the Handle reads is TARC",
            "NOT covered: the background thread exiting promptly, thread / fd accumulation over open/close cycles (Verus models neither threads nor file descriptors)",
        ],
    },
    "C19": {
        "units": ["store", "log"], "label_prefixes": ["C19."], "level": "proof",
        "trusted": ["T1", "T4", "T8", "T11", "T12", "T13", "T13s", "TLOG", "TARC", "RW", "DERIVE"],
        "assumptions": [
            "ground truth is defined over the records of each file: a record is live iff the key directory points at it; live / dead counts and dead bytes are recursive sums over the record sequence (no set cardinalities)",
            "exactness is proved for Ok exits of put, delete, merge and for rebuild_storage (from data files and from hint files); after a failed operation only the weak relation (never under-count live keys) is proved, which is what keeps later operations panic-free",
        ],
    },
    "C20": {
        "units": ["store"], "label_prefixes": ["C20.", "C04.get.pool_preserved"], "level": "proof",
        "trusted": ["T1", "T4", "T8", "T11", "T12", "T13", "T13s", "TLOG", "TARC", "RW", "DERIVE"],
        "assumptions": [
            "fault model: every World operation may fail nondeterministically (one or many faults, any position); a failed append may leave a torn tail, a failed flush a partial record",
            "proved at every error exit of write / put / delete / new_active_datafile: Index, WriterWf, StatsWeak, the model is unchanged, and after a restart the failed operation is applied or not applied, no other key affected",
            "merge: its error exits carry one clause, C20.merge.err_usable_after (the Writer invariant still holds), which does NOT hold on the current code: OPEN KNOWN FINDING D8 (a merge that fails after creating an output leaves ids above the active id and wedges every later rollover), reproduced on the real code by the replayer. Nothing else is claimed about a failed merge (e.g. which inputs are already gone)",
        ],
    },
    "C03": {
        "units": ["store", "log"],
        "label_prefixes": ["C03.", "C02.open.log_unchanged", "C05.tombstone_safe", "C04.append.flushed_before_ack", "C02.iter.", "C20.write.err_recoverable", "C20.put.err_recoverable", "C20.delete.err_recoverable", "C02.put.recoverable", "C02.delete.recoverable",
                           "C02.rollover.log_unchanged", "C20.new_active.err_unchanged", "C02.write.log_push", "C02.rebuild.is_spec_recover", "C05.copy.identical_record", "C14.create.fresh"],
        "level": "proof",
        "trusted": ["T1", "T4", "T8", "T11", "T12", "T13", "T13s", "TLOG", "TARC", "RW", "DERIVE"],
        "assumptions": [
            "A killed process leaves the effects of a prefix of its system calls; in the World that is the state after a prefix of the World calls of the operation in flight. WRITE PATH (set, delete, rollover): Writer::write carries a ghost checkpoint after EVERY World call (entry, after the append, after the optional sync, after the rollover): crash_point requires that a restart from that very state (spec_recover, which rebuild_storage is proved to compute: C02.rebuild.is_spec_recover) yields the map before the operation or the map with the operation applied (C03.write.crash_point), given that the operation started from a recoverable state; put / delete add no World call of their own",
            "MERGE: Writer::merge carries crash_point_merge after every World call -- the two creations of an output, the flush of each copied record, each hint append, the fsyncs, the creations at a rollover of the output, each unlink of a hint file, each unlink of a data file, the creation of the new active file: a restart from that very state yields the map the store had when the merge began (C03.merge.crash_point), given that the merge began in a state from which start-up rebuilds the key directory and whose hint files list their data files. The loop invariants say what start-up would rebuild at that moment (the key directory as it is now). One lemma per kind of step (lemmas/crashmerge_lemmas.rs): a flushed copy is invisible until its hint record exists (the output is read through its hint file); a hint append binds the key to the copy; fsync and empty files change nothing; unlinking a hint file that lists exactly its data file changes nothing; unlinking a data file no key points into changes nothing PROVIDED no tombstone in it is the only thing that shadows an older value in an unselected file -- this last proviso is the per-file form of the OPEN KNOWN FINDING D9 (lemma_tombstone_safe_step, label C05.tombstone_safe), on which the checkpoints of the removal loop therefore rest",
            "a kill INSIDE a World call leaves a state the World also produces when that call fails: for the write path these states are covered by the error exits (C20.write/put/delete.err_recoverable, C20.new_active.err_unchanged), which this check counts; for merge the error exits are NOT under such a contract -- there the in-call states are a partly written copy (invisible: the output is read through its hint file) or a partly written hint record (the World keeps the record list unchanged and the loader stops at it: C02.iter.*), which is argued, not machine-checked",
            "the directory a kill leaves must also be one the store can keep working from: every creation in the store carries the precondition C14.create.fresh (a hint file is created only when its data file exists and has no hint file yet; a data file only with an id above every id ever used), so no prefix of the World calls leaves a hint file without its data file -- such a stale hint file would be adopted by the next active file of the same id and hide everything acknowledged afterwards (sub-agent seed C03e). These preconditions are counted for C03",
            "a kill during start-up: Bitcask::open is verified; every exit of it, Ok or Err -- and a kill after a prefix of its World calls leaves exactly the state of one of its Err exits: nothing changed, or one fresh empty data file created -- satisfies C03.open.kill_during_startup_harmless: the directory log is unchanged, the directory is well-formed and its hint files are still consistent, so the next start-up computes the same key directory (the Err exits through `?` are discharged with a broadcast form of lemma_log_new_file, because no ghost statement can be placed there). NOT proved: the error exits of merge (tried again with this technique: each kind of failing call needs its own broadcast lemma and trigger discipline inside the heaviest proof of the unit; left out). The thorough tier and the witness search additionally ENUMERATE every kill point on the real code for three histories with rollovers, merges and reopens (tools/crashsearch.py; bounded, never counted as proved)",
            "that a torn tail is skipped cleanly by the loader rests on LogIterator::next mapping UnexpectedEof to end-of-file (verified in unit log: C02.iter.*) and on bincode's encoding being self-delimiting (T11)",
        ],
    },
    "C13": {
        "units": ["store"], "label_prefixes": ["C13.", "C19.merge.exact", "C01.merge.frame"], "level": "proof",
        "trusted": ["T1", "T4", "T8", "T11", "T12", "T13", "T13s", "TLOG", "TARC", "RW", "DERIVE"],
        "assumptions": [
            "sizes are sums of record lengths over the record sequence of a file (fsize), over a list of files (sum_size) and over the id range of the merge outputs (range_size); dead bytes are the ground truth of C19 (dead_b: records the key directory does not point at). No set cardinalities: the selected files are enumerated by the BTreeSet's ascending duplicate-free listing (axiom_btreeset_seq)",
            "proved on Writer::merge (C13.merge.reclaims_exactly_dead): there is a duplicate-free list `ids` of exactly the removed files such that the created files are exactly the outputs lo..=hi plus the new, EMPTY active file, and  size(outputs) + dead_bytes(ids, key directory at start) == size(ids). The copy loop carries the invariant `bytes written to the outputs + dead bytes at start == dead bytes now` (every copied entry re-points one key, which turns exactly its old record into dead bytes: lemma_sum_dead_change over C19's lemma_kd_change); at the end nothing in the selected files is live. With C13.merge.old_files_untouched_or_removed (every other file is byte-for-byte unchanged) the store shrinks by exactly the dead bytes of the selected files: it never grows (theorem_merge_never_grows, C13.never_grows), keeps one record per live key of those files and nothing else, and a pass over files without dead bytes reproduces their size (fixpoint)",
            "'exactly as large as a fresh store holding only the live pairs' is proved in the form 'size = size before - dead bytes, no dead record left in the outputs (C19.merge.exact: outputs all live)'; the last step to a sum over KEYS (each live key once, enc_len depends only on the pair: T11) is the exchange of a sum over records for a sum over keys and is not machine-checked -- it is checked on the real code by the bounded search (after every merge with all files eligible the data files are compared with a freshly written store)",
            "files without statistics (empty files) are never selected and stay; they have size 0. The tombstone finding (C05) does not affect sizes",
        ],
    },
    "C09": {
        "units": ["store"], "label_prefixes": ["C09."], "level": "proof",
        "trusted": ["T1", "T4", "T8", "T11", "T12", "T12S", "T13", "T13s", "TLOG", "TARC", "RW", "DERIVE"],
        "assumptions": [
            "failure model (from the property): per file, any suffix written after that file's last completed fsync may be missing after a power loss; creations and removals already issued persist. In the World every data / hint file carries `synced`, the number of its records covered by the last successful fsync; all_synced(w) says nothing is exposed: every record of every file is covered. theorem_power_loss (C09.power_loss, pure lemma): if all_synced(w), every directory a power loss can leave has the same records, hence the same spec_recover (C02's recovery function) -- every acknowledged write is still there",
            "proved on the code: with sync = Always, Writer::write / put / delete re-establish all_synced on every Ok exit (append, then LogWriter::sync; a rollover creates an empty file) -- C09.write/put/delete.synced; new_active_datafile keeps it; Writer::merge re-establishes it on Ok (C09.merge.synced) and, stronger, every unlink inside merge happens in an all_synced directory (C09.unlink.all_durable, a ghost checkpoint in front of each fs::remove_file): the merged copies and their hint records are fsync'ed before any input file is removed. Merge output files are synced unconditionally (fix D12), so C09.merge.* hold for every sync strategy whenever the merge starts from an all_synced directory",
            "NOT covered: power loss in the MIDDLE of an operation (between its system calls) is C03's territory; only operation boundaries and the unlink points are covered. Directory-entry durability (fsync of the directory after create / unlink) is assumed by the property's failure model. The Handle / background-thread layer adds nothing (it only calls these functions); sync = Interval / None give no guarantee and none is claimed",
            "LogWriter::sync is the one-liner `self.0.get_ref().sync_all()`; its World-level contract (C09.sync.durable: the writer's own file becomes fully synced) is ASSUMED in unit store (TLOG) -- the byte-level unit log has no notion of durability, so that body is covered only by the strace-based bounded search (thorough tier / witness), which watches the real fsync calls",
        ],
    },
    "C05": {
        "units": ["store", "log", "refine"], "label_prefixes": ["C05.", "C01.merge", "C12.merge", "C04.copy.valid_location"], "level": "proof",
        "trusted": ["T1", "T4", "T8", "T9", "T10", "T11", "T12", "T13", "T13s", "TLOG", "TARC", "RW", "DERIVE"],
        "assumptions": [
            "fileids_to_merge is verified to return a subset of the files with statistics -- nothing else is assumed about the selection, so merge's contract holds for EVERY selected subset (the f64 threshold arithmetic is irrelevant)",
            "'now': C01.merge.frame (the whole map is unchanged, Index holds); 'after a restart': C05.merge.recoverable, proved from the log-level merge theorem (lemma_merge_recover_log: per key, via the last-record bridge lemma) under the single hypothesis C05.tombstone_safe, which is isolated as its own lemma and is an OPEN KNOWN FINDING (merge drops tombstones)",
            "every other way of breaking C05 (wrong copy position or length, missing record, stale index entry, hint record in the wrong hint file, unlinking a wrong file, id reuse) fails a different obligation",
        ],
    },
}
