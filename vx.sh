#!/bin/sh
# dev helper: expand errors of one function: vx.sh <unit> <module> <function>
cd /verif
RLIB=$(ls build/verus-deps/debug/deps/libbytes-*.rlib)
verus build/gen/$1.rs --extern bytes=$RLIB -L dependency=build/verus-deps/debug/deps --expand-errors --verify-only-module $2 --verify-function "$3" 2>&1 | grep -v "autoderive\|= help\|^warning\|^ *$"
