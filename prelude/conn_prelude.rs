// ------------------------------ trusted prelude (unit net, connection layer) ------------------------------
// Shim types with the same method names as the real dependencies; their contracts are the assumed
// sequential semantics (T4 BytesMut, T7 tokio stream). Bodies are never executed.

pub mod io {
    use super::*;
    #[verifier::external_body]
    #[derive(Debug)]
    pub struct Error { k: usize }
    pub type Result<T> = core::result::Result<T, Error>;
    #[derive(Debug, PartialEq, Eq, Clone, Copy)]
    pub enum ErrorKind { NotFound, ConnectionReset, UnexpectedEof, AlreadyExists, Other }
    impl Error {
        #[verifier::external_body]
        pub fn new(kind: ErrorKind, msg: &str) -> (e: Error) { unimplemented!() }
    }
}
pub mod anyhow {
    use super::*;
    #[verifier::external_body]
    #[derive(Debug)]
    pub struct Error { k: usize }
}
pub mod tokio {
    pub mod task {
        use super::super::*;
        #[verifier::external_body]
        #[derive(Debug)]
        pub struct JoinError { k: usize }
    }
}

pub trait AsyncReadExt {}
pub trait AsyncWriteExt {}
pub struct TcpStream { k: usize }
impl AsyncReadExt for TcpStream {}
impl AsyncWriteExt for TcpStream {}

/// bytes::BytesMut: a growable byte buffer with a Seq<u8> view.
#[verifier::external_body]
pub struct BytesMut { v: Vec<u8> }
impl View for BytesMut {
    type V = Seq<u8>;
    uninterp spec fn view(&self) -> Seq<u8>;
}
impl BytesMut {
    #[verifier::external_body]
    pub fn with_capacity(n: usize) -> (r: BytesMut) ensures r@ == Seq::<u8>::empty() { unimplemented!() }
    #[verifier::external_body]
    pub fn is_empty(&self) -> (r: bool) ensures r == (self@.len() == 0) { unimplemented!() }
    #[verifier::external_body]
    pub fn len(&self) -> (r: usize) ensures r == self@.len() { unimplemented!() }
    #[verifier::external_body]
    pub fn clear(&mut self) ensures final(self)@ == Seq::<u8>::empty() { unimplemented!() }
    /// `Buf::advance` for BytesMut panics when cnt exceeds the length: a precondition here.
    #[verifier::external_body]
    pub fn advance(&mut self, cnt: usize)
        requires cnt <= old(self)@.len(),    //@[bytesmut.advance.in_bounds]
        ensures final(self)@ == old(self)@.skip(cnt as int)
    { unimplemented!() }
    /// `&buffer[..]` (rule R-deref-slice)
    #[verifier::external_body]
    pub fn verif_as_slice(&self) -> (r: &[u8]) ensures r@ == self@ { unimplemented!() }
}

/// tokio::io::BufWriter<S> over a stream: `out` = bytes handed to the writer so far, `flushed` = how
/// many of them have been flushed to the peer, `incoming` = bytes the peer has sent and that were not
/// read yet.  `read_buf` delivers a NONDETERMINISTIC non-empty prefix of `incoming` (any segmentation),
/// and 0 exactly at end of stream.
#[verifier::external_body]
#[verifier::reject_recursive_types(S)]
pub struct BufWriter<S> { s: S }
impl<S> BufWriter<S> {
    pub uninterp spec fn out(&self) -> Seq<u8>;
    pub uninterp spec fn flushed(&self) -> int;
    pub uninterp spec fn incoming(&self) -> Seq<u8>;
    /// no I/O error will occur on this stream (errors are otherwise possible at every operation)
    pub uninterp spec fn healthy(&self) -> bool;

    #[verifier::external_body]
    pub fn new(s: S) -> (r: Self) ensures r.out() == Seq::<u8>::empty(), r.flushed() == 0 { unimplemented!() }

    #[verifier::external_body]
    pub async fn write_u8(&mut self, b: u8) -> (r: io::Result<()>)
        ensures final(self).incoming() == old(self).incoming(), final(self).flushed() >= old(self).flushed(),
                final(self).healthy() == old(self).healthy(), old(self).healthy() ==> r is Ok,
                r is Ok ==> final(self).out() == old(self).out().push(b),
    { unimplemented!() }

    #[verifier::external_body]
    pub async fn write_all(&mut self, src: &[u8]) -> (r: io::Result<()>)
        ensures final(self).incoming() == old(self).incoming(), final(self).flushed() >= old(self).flushed(),
                final(self).healthy() == old(self).healthy(), old(self).healthy() ==> r is Ok,
                r is Ok ==> final(self).out() == old(self).out() + src@,
    { unimplemented!() }

    /// AsyncWriteExt::write: ONE write attempt; it may accept any non-empty prefix of a non-empty buffer (never promised to take all)
    #[verifier::external_body]
    pub async fn write(&mut self, src: &[u8]) -> (r: io::Result<usize>)
        ensures final(self).incoming() == old(self).incoming(), final(self).flushed() >= old(self).flushed(),
                final(self).healthy() == old(self).healthy(), old(self).healthy() ==> r is Ok,
                r matches Ok(n) ==> n <= src@.len() && (src@.len() > 0 ==> n > 0) && final(self).out() == old(self).out() + src@.take(n as int),
    { unimplemented!() }

    #[verifier::external_body]
    pub async fn flush(&mut self) -> (r: io::Result<()>)
        ensures final(self).incoming() == old(self).incoming(), final(self).out() == old(self).out(),
                final(self).healthy() == old(self).healthy(), old(self).healthy() ==> r is Ok,
                r is Ok ==> final(self).flushed() == final(self).out().len(),
    { unimplemented!() }

    #[verifier::external_body]
    pub async fn read_buf(&mut self, buf: &mut BytesMut) -> (r: io::Result<usize>)
        ensures
            final(self).out() == old(self).out(), final(self).flushed() == old(self).flushed(),
            final(self).healthy() == old(self).healthy(), old(self).healthy() ==> r is Ok,
            r matches Ok(n) ==> (
                (n == 0 <==> old(self).incoming().len() == 0)
                && n <= old(self).incoming().len()
                && final(buf)@ == old(buf)@ + old(self).incoming().take(n as int)
                && final(self).incoming() == old(self).incoming().skip(n as int)),
    { unimplemented!() }
}

pub assume_specification [Bytes::len] (b: &Bytes) -> (r: usize)
    ensures r == bv(*b).len(), r <= isize::MAX;
pub assume_specification [<Bytes as core::ops::Deref>::deref] (b: &Bytes) -> (r: &[u8])
    ensures r@ == bv(*b);

// net::Error has a variant for command::Error; the connection layer never constructs it.
pub mod command_shim {
    use super::*;
    #[verifier::external_body]
    #[derive(Debug)]
    pub struct Error { k: usize }
}

// T13b: a slice of a non-zero-sized type holds at most isize::MAX elements (Rust allocation rule).
pub broadcast axiom fn axiom_frame_slice_len(s: &[Frame])
    ensures #[trigger] s@.len() <= isize::MAX;
pub axiom fn axiom_frame_vec_len(v: &Vec<Frame>)
    ensures v@.len() <= isize::MAX;
