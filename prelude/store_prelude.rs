// ------------------------------ trusted prelude (unit store) ------------------------------
// The World: an entry-level model of the store directory, plus shim types (same method names as the
// real dependencies) whose contracts are the assumed sequential semantics.  Bodies are never executed.
global size_of usize == 8;   // T13: 64-bit target

#[verifier::external_type_specification]
#[verifier::external_body]
pub struct ExBytes(Bytes);
pub uninterp spec fn bv(b: Bytes) -> Seq<u8>;
/// T4: a Bytes value *is* its content
pub broadcast axiom fn axiom_bytes_ext(a: Bytes, b: Bytes)
    ensures #[trigger] bv(a) == #[trigger] bv(b) ==> a == b;
pub assume_specification [<Bytes as Clone>::clone] (b: &Bytes) -> (r: Bytes)
    ensures r == *b;
pub assume_specification [Bytes::is_empty] (b: &Bytes) -> (r: bool)
    ensures r == (bv(*b).len() == 0);
pub assume_specification [Bytes::len] (b: &Bytes) -> (r: usize)
    ensures r == bv(*b).len();

#[verifier::external_type_specification]
#[verifier::external_body]
pub struct ExPath(std::path::Path);
#[verifier::external_type_specification]
#[verifier::external_body]
pub struct ExPathBuf(std::path::PathBuf);
#[verifier::external_trait_specification]
pub trait ExAsRef<U: core::marker::PointeeSized>: core::marker::PointeeSized {
    type ExternalTraitSpecificationFor: AsRef<U>;
}
pub assume_specification [std::path::PathBuf::as_path] (p: &PathBuf) -> (r: &Path);

// ---- the World ----------------------------------------------------------------------------------
pub struct Rec { pub key: Bytes, pub val: Option<Bytes>, pub tstamp: i64, pub pos: u64, pub len: u64 }
pub struct HRec { pub key: Bytes, pub tstamp: i64, pub pos: u64, pub len: u64 }
/// a data file: its complete records in file order; `torn` = a partial record follows the last one
/// (left by a failed append); `synced` = number of records covered by the last fsync
pub struct DataG { pub recs: Seq<Rec>, pub size: u64, pub torn: bool, pub synced: nat }
pub struct HintG { pub recs: Seq<HRec>, pub torn: bool, pub synced: nat }
pub tracked struct World {
    pub ghost data: Map<u64, DataG>,
    pub ghost hint: Map<u64, HintG>,
    /// every data-file id ever created in this directory
    pub ghost ever: Set<u64>,
    /// readers currently parked in the handle's reader pool / its capacity (ArrayQueue, T8)
    pub ghost pool_free: nat,
    pub ghost pool_cap: nat,
}
pub open spec fn empty_data() -> DataG { DataG { recs: Seq::empty(), size: 0, torn: false, synced: 0 } }
pub open spec fn empty_hint() -> HintG { HintG { recs: Seq::empty(), torn: false, synced: 0 } }
/// C09: every record of every file is covered by an fsync (nothing a power loss could take away)
pub open spec fn all_synced(w: World) -> bool {
    &&& forall |f: u64| #[trigger] w.data.contains_key(f) ==> w.data[f].synced == w.data[f].recs.len()
    &&& forall |f: u64| #[trigger] w.hint.contains_key(f) ==> w.hint[f].synced == w.hint[f].recs.len()
}
/// every file except the two merge outputs with id `out` is fully synced
pub open spec fn all_synced_except(w: World, out: u64) -> bool {
    &&& forall |f: u64| #[trigger] w.data.contains_key(f) && f != out ==> w.data[f].synced == w.data[f].recs.len()
    &&& forall |f: u64| #[trigger] w.hint.contains_key(f) && f != out ==> w.hint[f].synced == w.hint[f].recs.len()
}
/// C09: called (ghost) in front of every unlink: when the operation started from a fully synced directory, a file
/// may only be removed while everything else in the directory is on stable storage
pub proof fn durable_checkpoint(w: &World, started_synced: bool)
    requires started_synced ==> all_synced(*w),   //@[C09.unlink.all_durable]
{}

#[derive(PartialEq, Eq, Clone, Copy)]
pub enum Kind { Data, Hint }
/// ghost reading of a file name produced by utils::{datafile_name, hintfile_name}
pub uninterp spec fn path_kind<P>(p: P) -> Kind;
pub uninterp spec fn path_id<P>(p: P) -> u64;

pub mod io {
    use super::*;
    #[verifier::external_body]
    #[derive(Debug)]
    pub struct Error { k: usize }
    pub type Result<T> = core::result::Result<T, Error>;
    #[derive(Debug, Clone, Copy)]
    pub enum ErrorKind { NotFound, AlreadyExists, UnexpectedEof, Other }
    impl PartialEq for ErrorKind {
        fn eq(&self, o: &Self) -> (r: bool) ensures r == (*self == *o) {
            match (*self, *o) {
                (ErrorKind::NotFound, ErrorKind::NotFound) => true, (ErrorKind::AlreadyExists, ErrorKind::AlreadyExists) => true,
                (ErrorKind::UnexpectedEof, ErrorKind::UnexpectedEof) => true, (ErrorKind::Other, ErrorKind::Other) => true, _ => false }
        }
    }
    impl Eq for ErrorKind {}
    impl vstd::std_specs::cmp::PartialEqSpecImpl for ErrorKind {
        open spec fn obeys_eq_spec() -> bool { true }
        open spec fn eq_spec(&self, o: &Self) -> bool { *self == *o }
    }
    impl Error {
        pub uninterp spec fn spec_kind(&self) -> ErrorKind;
        #[verifier::external_body]
        pub fn kind(&self) -> (k: ErrorKind) ensures k == self.spec_kind() { unimplemented!() }
    }
    #[verifier::external_body]
    #[verifier::reject_recursive_types(W)]
#[derive(Debug)]
    pub struct BufWriter<W> { w: W }
    /// std::io::Write, as far as the merge data writer is concerned: records handed to the writer are
    /// *pending* (not in the World) until flushed
    pub trait Write {
        spec fn id(&self) -> u64;
        spec fn pending(&self) -> Seq<Rec>;
        /// file size + pending bytes = offset of the next record
        spec fn end(&self) -> u64;
        /// a failed copy / flush left a partial record in the buffer
        spec fn dirty(&self) -> bool;
    }
}
pub mod bincode {
    use super::*;
    #[verifier::external_body]
    #[derive(Debug)]
    pub struct Error { k: usize }
    pub type Result<T> = core::result::Result<T, Error>;
}
/// ghost log of one background task (C18): wake-ups after a completed sleep, hand-offs to the blocking pool, the last sleep
pub struct BgLog { pub ghost ticks: nat, pub ghost blocking_calls: nat, pub ghost last_sleep_ms: int,
                   /// the task has been told to stop (its Shutdown::recv has returned)
                   pub ghost signalled: bool }
pub mod tokio {
    pub mod task {
        use super::super::*;
        #[verifier::external_body]
        #[derive(Debug)]
        pub struct JoinError { k: usize }
        /// tokio::task::spawn_blocking after rule R-outline: the closure body has run at the call site; awaiting the handle yields its
        /// value or a JoinError (runtime shutting down)
        #[verifier::external_body]
        pub async fn spawn_blocking<T>(v: T, Tracked(b): Tracked<&mut BgLog>) -> (r: Result<T, JoinError>)
            ensures r matches Ok(x) ==> x == v,
                    final(b).blocking_calls == old(b).blocking_calls + 1, final(b).ticks == old(b).ticks, final(b).last_sleep_ms == old(b).last_sleep_ms,
                    final(b).signalled == old(b).signalled
        { unimplemented!() }
    }
    pub mod time {
        use super::super::*;
        /// tokio::time::sleep: completes after (at least) the given duration; how much later is the runtime's business
        #[verifier::external_body]
        pub async fn sleep(d: super::super::time::Duration, Tracked(b): Tracked<&mut BgLog>) -> (r: ())
            ensures final(b).ticks == old(b).ticks + 1, final(b).last_sleep_ms == d.ms(), final(b).blocking_calls == old(b).blocking_calls,
                    final(b).signalled == old(b).signalled
        { unimplemented!() }
    }
}
/// std::time::Duration as a number of milliseconds (sub-millisecond precision is irrelevant to the contracts)
pub mod time {
    use super::*;
    #[verifier::external_body]
    #[derive(Clone, Copy)]
    pub struct Duration { k: usize }
    impl Duration {
        pub uninterp spec fn ms(&self) -> int;
        #[verifier::external_body]
        pub fn from_millis(ms: u64) -> (r: Duration) ensures r.ms() == ms { unimplemented!() }
        #[verifier::external_body]
        pub fn from_secs(s: u64) -> (r: Duration) ensures r.ms() == s * 1000 { unimplemented!() }
        #[verifier::external_body]
        pub fn from_micros(us: u64) -> (r: Duration) ensures r.ms() == us / 1000 { unimplemented!() }
        /// panics on a negative or non-finite factor; for a factor in [0, 1] the result is not longer than self
        #[verifier::external_body]
        pub fn mul_f64(self, f: f64) -> (r: Duration)
            requires unit_range(f),   //@[C18.jitter.factor_in_unit_range]
            ensures 0 <= r.ms() <= self.ms()
        { unimplemented!() }
        /// `a - b` (rule R-duration-op): panics when b > a
        #[verifier::external_body]
        pub fn verif_sub(self, o: Duration) -> (r: Duration)
            requires self.ms() >= o.ms(),
            ensures r.ms() == self.ms() - o.ms()
        { unimplemented!() }
        /// `a + b` (rule R-duration-op; overflow of the 64-bit seconds counter is out of reach for millisecond configurations)
        #[verifier::external_body]
        pub fn verif_add(self, o: Duration) -> (r: Duration) ensures r.ms() == self.ms() + o.ms() { unimplemented!() }
    }
}
/// 0.0 <= f <= 1.0 (f64 is outside Verus's subset: an uninterpreted predicate; the documented range of merge.check_jitter)
pub uninterp spec fn unit_range(f: f64) -> bool;
pub mod rand {
    use super::*;
    #[verifier::external_body]
    pub struct ThreadRng { k: usize }
    #[verifier::external_body]
    pub fn thread_rng() -> ThreadRng { unimplemented!() }
    pub mod distributions {
        use super::super::*;
        #[verifier::external_body]
        #[verifier::reject_recursive_types(T)]
        pub struct Uniform<T> { t: core::marker::PhantomData<T> }
        impl Uniform<time::Duration> {
            pub uninterp spec fn lo(&self) -> int;
            pub uninterp spec fn hi(&self) -> int;
            /// panics when low > high
            #[verifier::external_body]
            pub fn new_inclusive(lo: time::Duration, hi: time::Duration) -> (r: Self)
                requires lo.ms() <= hi.ms(),
                ensures r.lo() == lo.ms(), r.hi() == hi.ms()
            { unimplemented!() }
            #[verifier::external_body]
            pub fn sample(&self, rng: &mut super::ThreadRng) -> (r: time::Duration) ensures self.lo() <= r.ms() <= self.hi() { unimplemented!() }
        }
    }
}
/// crate::shutdown::Shutdown (verified in unit slots): the flag and the wait for the signal
#[verifier::external_body]
pub struct Shutdown { k: usize }
impl Shutdown {
    pub uninterp spec fn fired(&self) -> bool;
    #[verifier::external_body]
    pub fn is_shutdown(&self) -> (r: bool) ensures r == self.fired() { unimplemented!() }
    #[verifier::external_body]
    pub async fn recv(&mut self, Tracked(b): Tracked<&mut BgLog>) -> (r: ())
        ensures final(self).fired(), final(b).signalled, final(b).ticks == old(b).ticks, final(b).blocking_calls == old(b).blocking_calls,
                final(b).last_sleep_ms == old(b).last_sleep_ms
    { unimplemented!() }
}
/// rule R-select: which arm of a tokio::select! runs
#[verifier::external_body]
pub fn verif_select(n: usize) -> (r: usize) ensures r < n { unimplemented!() }

/// T11: what bincode writes for an entry is determined by these views (stands for the serde derives
/// of DataFileEntry / HintFileEntry, which rule R-derive drops).
pub trait Serialize {
    spec fn data_view(&self) -> Option<(Bytes, Option<Bytes>, i64)>;
    spec fn hint_view(&self) -> Option<HRec>;
}
pub trait DeserializeOwned: Sized {
    spec fn de_data_view(&self) -> Option<(Bytes, Option<Bytes>, i64)>;
    spec fn de_hint_view(&self) -> Option<HRec>;
}

pub mod fs {
    use super::*;
    /// an open file: which file of the directory it is
    #[verifier::external_body]
    #[derive(Debug)]
    pub struct File { k: usize }
    impl File {
        pub uninterp spec fn kind(&self) -> Kind;
        pub uninterp spec fn id(&self) -> u64;
    }
    impl File {
        /// fsync of a data file: every record that is in the file becomes durable, or the call fails
        #[verifier::external_body]
        pub fn sync_all(&self, Tracked(w): Tracked<&mut World>) -> (r: io::Result<()>)
            ensures
                final(w).ever == old(w).ever, final(w).hint == old(w).hint, final(w).data.dom() == old(w).data.dom(),
                final(w).pool_free == old(w).pool_free, final(w).pool_cap == old(w).pool_cap,
                forall |i: u64| i != self.id() && old(w).data.contains_key(i) ==> #[trigger] final(w).data[i] == old(w).data[i],
                old(w).data.contains_key(self.id()) ==> final(w).data[self.id()].recs == old(w).data[self.id()].recs
                    && final(w).data[self.id()].size == old(w).data[self.id()].size && final(w).data[self.id()].torn == old(w).data[self.id()].torn
                    && final(w).data[self.id()].synced <= final(w).data[self.id()].recs.len(),
                (r is Ok && old(w).data.contains_key(self.id())) ==> final(w).data[self.id()].synced == old(w).data[self.id()].recs.len(),
        { unimplemented!() }
    }
    #[verifier::external_body]
    pub struct Metadata { k: usize }
    impl Metadata {
        pub uninterp spec fn spec_len(&self) -> u64;
        #[verifier::external_body]
        pub fn len(&self) -> (r: u64) ensures r == self.spec_len() { unimplemented!() }
    }
    #[verifier::external_body]
    pub fn metadata<P: AsRef<Path>>(p: P, Tracked(w): Tracked<&mut World>) -> (r: io::Result<Metadata>)
        ensures *final(w) == *old(w),
                // the length on disk is the logical size, plus a partial record if a failed append left one
                r matches Ok(m) ==> path_kind(p) is Data && old(w).data.contains_key(path_id(p)) && m.spec_len() >= old(w).data[path_id(p)].size
                    && (!old(w).data[path_id(p)].torn ==> m.spec_len() == old(w).data[path_id(p)].size),
    { unimplemented!() }

    /// unlink: removes one whole file, or fails leaving everything as it was
    #[verifier::external_body]
    pub fn remove_file<P: AsRef<Path>>(p: P, Tracked(w): Tracked<&mut World>) -> (r: io::Result<()>)
        ensures
            final(w).ever == old(w).ever,
            r matches Err(e) ==> *final(w) == *old(w) && (e.spec_kind() is NotFound ==> match path_kind(p) {
                Kind::Data => !old(w).data.contains_key(path_id(p)),
                Kind::Hint => !old(w).hint.contains_key(path_id(p)) }),
            r is Ok ==> (match path_kind(p) {
                Kind::Data => old(w).data.contains_key(path_id(p)) && final(w).data == old(w).data.remove(path_id(p)) && final(w).hint == old(w).hint,
                Kind::Hint => old(w).hint.contains_key(path_id(p)) && final(w).data == old(w).data && final(w).hint == old(w).hint.remove(path_id(p)),
            }),
    { unimplemented!() }
}

/// std::io::BufWriter<fs::File> as used for the merge data file: records handed to it are *pending*
/// (not in the World) until flushed.
impl io::Write for io::BufWriter<fs::File> {
    uninterp spec fn id(&self) -> u64;
    uninterp spec fn pending(&self) -> Seq<Rec>;
    uninterp spec fn end(&self) -> u64;
    uninterp spec fn dirty(&self) -> bool;
}
use io::Write;
impl io::BufWriter<fs::File> {

    #[verifier::external_body]
    pub fn new(f: fs::File) -> (r: io::BufWriter<fs::File>)
        ensures r.id() == f.id(), r.pending() == Seq::<Rec>::empty(), r.end() == 0, !r.dirty()
    { unimplemented!() }

    #[verifier::external_body]
    pub fn get_ref(&self) -> (r: &fs::File)
        ensures r.id() == self.id()
    { unimplemented!() }

    #[verifier::external_body]
    pub fn flush(&mut self, Tracked(w): Tracked<&mut World>) -> (r: io::Result<()>)
        requires old(w).data.contains_key(old(self).id()),
                 !old(self).dirty(),                          //@[C20.flush.no_partial_record]
                 !old(w).data[old(self).id()].torn,           //@[C20.flush.no_torn_tail]
        ensures
            final(self).id() == old(self).id(), final(self).end() == old(self).end(),
            final(w).ever == old(w).ever, final(w).hint == old(w).hint,
            final(w).data.dom() == old(w).data.dom(),
            forall |i: u64| i != old(self).id() && old(w).data.contains_key(i) ==> #[trigger] final(w).data[i] == old(w).data[i],
            r is Ok ==> final(self).pending() == Seq::<Rec>::empty() && !final(self).dirty()
                && final(w).data[old(self).id()].recs.len() < 0x1_0000_0000_0000
                && final(w).data[old(self).id()] == (DataG {
                        recs: old(w).data[old(self).id()].recs + old(self).pending(),
                        size: old(self).end(), ..old(w).data[old(self).id()] }),
            // a failed flush may have written any prefix of the buffer, possibly cutting a record
            r is Err ==> final(self).dirty() && final(w).data[old(self).id()].torn
                && (exists |n: int| 0 <= n <= old(self).pending().len()
                    && final(w).data[old(self).id()].recs == old(w).data[old(self).id()].recs + #[trigger] old(self).pending().take(n)),
    { unimplemented!() }
}

// ---- interior-mutable containers (T8): sequential semantics -----------------------------------------
#[verifier::external_body]
#[verifier::reject_recursive_types(K)]
#[verifier::reject_recursive_types(V)]
#[derive(Debug)]
pub struct DashMap<K, V> { m: core::marker::PhantomData<(K, V)> }
#[verifier::reject_recursive_types(K)]
#[verifier::reject_recursive_types(V)]
pub struct Entry<'a, K, V> { pub map: &'a mut DashMap<K, V>, pub key: K }
pub trait DefaultSpec: Sized { spec fn default_spec() -> Self; }
/// guard returned by get(): read access to one value
#[verifier::reject_recursive_types(K)]
pub struct Ref<'a, K, V> { pub k: &'a K, pub v: &'a V }
impl<'a, K, V> core::ops::Deref for Ref<'a, K, V> { type Target = V; fn deref(&self) -> (r: &V) ensures *r == *self.v { self.v } }
impl<'a, K, V> Ref<'a, K, V> { pub fn key(&self) -> (r: &K) ensures *r == *self.k { self.k } }
/// guard yielded by iter_mut(): write access to one value (R-dashmap-iter)
#[verifier::reject_recursive_types(K)]
pub struct RefMutMulti<'a, K, V> { pub k: &'a K, pub v: &'a mut V }
impl<'a, K, V> RefMutMulti<'a, K, V> { pub fn key(&self) -> (r: &K) ensures *r == *self.k { self.k } }
impl<'a, K, V> core::ops::Deref for RefMutMulti<'a, K, V> { type Target = V; fn deref(&self) -> (r: &V) ensures *r == mut_ref_current(self.v) { &*self.v } }
impl<'a, K, V> core::ops::DerefMut for RefMutMulti<'a, K, V> {
    fn deref_mut(&mut self) -> (r: &mut V)
        ensures *r == *(old(self).v), *(final(self).v) == *final(r), final(self).k == old(self).k, mut_ref_future(final(self).v) == mut_ref_future(old(self).v)
    { &mut *self.v }
}
impl<K, V> DashMap<K, V> {
    pub uninterp spec fn view(&self) -> Map<K, V>;
    #[verifier::external_body]
    pub fn default() -> (r: Self) ensures r@ == Map::<K, V>::empty() { unimplemented!() }
    #[verifier::external_body]
    pub fn insert(&mut self, k: K, v: V) -> (r: Option<V>)
        ensures final(self)@ == old(self)@.insert(k, v),
                r == (if old(self)@.contains_key(k) { Some(old(self)@[k]) } else { None::<V> }),
    { unimplemented!() }
    #[verifier::external_body]
    pub fn remove(&mut self, k: &K) -> (r: Option<(K, V)>)
        ensures final(self)@ == old(self)@.remove(*k),
                r == (if old(self)@.contains_key(*k) { Some((*k, old(self)@[*k])) } else { None::<(K, V)> }),
    { unimplemented!() }
    #[verifier::external_body]
    pub fn get<'a>(&'a self, k: &'a K) -> (r: Option<Ref<'a, K, V>>)
        ensures r is Some == self@.contains_key(*k),
                r matches Some(g) ==> *g.k == *k && *g.v == self@[*k],
    { unimplemented!() }
    #[verifier::external_body]
    pub fn contains_key(&self, k: &K) -> (r: bool) ensures r == self@.contains_key(*k) { unimplemented!() }
    #[verifier::external_body]
    pub fn is_empty(&self) -> (r: bool) ensures r == (self@.dom().len() == 0) { unimplemented!() }
    #[verifier::external_body]
    pub fn entry<'a>(&'a mut self, k: K) -> (r: Entry<'a, K, V>)
        ensures r.key == k, mut_ref_current(r.map)@ == old(self)@, mut_ref_future(r.map)@ == final(self)@,
    { unimplemented!() }
    /// R-dashmap-iter: some duplicate-free enumeration of the current key set
    #[verifier::external_body]
    pub fn verif_keys(&self) -> (r: Vec<K>)
        ensures r@.no_duplicates(), r@.to_set() == self@.dom(), r@.len() < 0x4000_0000_0000_0000
    { unimplemented!() }
    #[verifier::external_body]
    pub fn verif_guard<'a>(&'a self, k: &'a K) -> (r: Ref<'a, K, V>)
        requires self@.contains_key(*k),
        ensures *r.k == *k, *r.v == self@[*k],
    { unimplemented!() }
    #[verifier::external_body]
    pub fn verif_guard_mut<'a>(&'a mut self, k: &'a K) -> (r: RefMutMulti<'a, K, V>)
        requires old(self)@.contains_key(*k),
        ensures *r.k == *k, *r.v == old(self)@[*k], final(self)@ == old(self)@.insert(*k, *final(r.v)),
    { unimplemented!() }
}
impl<'a, K, V: Default + DefaultSpec> Entry<'a, K, V> {
    #[verifier::external_body]
    pub fn or_default(self) -> (r: &'a mut V)
        ensures
            *r == (if mut_ref_current(self.map)@.contains_key(self.key) { mut_ref_current(self.map)@[self.key] } else { V::default_spec() }),
            mut_ref_future(self.map)@ == mut_ref_current(self.map)@.insert(self.key, *final(r)),
    { unimplemented!() }
}

#[verifier::external_body]
#[verifier::reject_recursive_types(T)]
#[derive(Debug)]
pub struct RefCell<T> { t: T }
impl<T> RefCell<T> {
    #[verifier::external_body]
    pub fn new(t: T) -> Self { unimplemented!() }
    /// never fails here: the borrow is always released before the next one (sequential code)
    #[verifier::external_body]
    pub fn borrow_mut(&self) -> &mut T { unimplemented!() }
}

#[verifier::external_body]
#[derive(Debug)]
#[verifier::reject_recursive_types(T)]
pub struct BTreeSet<T> { k: core::marker::PhantomData<T> }
impl BTreeSet<u64> {
    pub uninterp spec fn view(&self) -> Set<u64>;
    #[verifier::external_body]
    pub fn new() -> (r: Self) ensures r@ == Set::<u64>::empty() { unimplemented!() }
    #[verifier::external_body]
    pub fn insert(&mut self, x: u64) -> (r: bool) ensures final(self)@ == old(self)@.insert(x) { unimplemented!() }
    #[verifier::external_body]
    pub fn contains(&self, x: &u64) -> (r: bool) ensures r == self@.contains(*x) { unimplemented!() }
    /// the ascending enumeration of the set (what iteration yields)
    pub uninterp spec fn spec_seq(&self) -> Seq<u64>;
    /// `for id in &set`: ascending enumeration (rule R-for-collect)
    #[verifier::external_body]
    pub fn verif_to_vec(&self) -> (r: Vec<u64>)
        ensures r@ == self.spec_seq(), r@.to_set() == self@, r@.no_duplicates(),
                forall |i: int, j: int| 0 <= i < j < r@.len() ==> r@[i] < r@[j],
    { unimplemented!() }
}
/// a BTreeSet<u64> is finite: its ascending enumeration lists every element once
pub axiom fn axiom_btreeset_seq(s: &BTreeSet<u64>)
    ensures s.spec_seq().to_set() == s@, s.spec_seq().no_duplicates();

// ---- shims for the types behind log.rs' structs (opaque in this unit) ---------------------------------
#[verifier::external_body]
#[verifier::reject_recursive_types(K)]
#[verifier::reject_recursive_types(V)]
#[derive(Debug)]
pub struct LruCache<K, V> { m: core::marker::PhantomData<(K, V)> }
#[verifier::external_body]
#[verifier::reject_recursive_types(W)]
#[derive(Debug)]
pub struct BufWriterWithPos<W> { w: W }
#[verifier::external_body]
#[verifier::reject_recursive_types(R)]
#[derive(Debug)]
pub struct BufReaderWithPos<R> { r: R }
pub mod memmap2 {
    #[verifier::external_body]
#[derive(Debug)]
    pub struct Mmap { k: usize }
}

// ---- concurrency primitives: sequential reading (T8) ------------------------------------------------
#[verifier::external_body]
#[verifier::reject_recursive_types(T)]
pub struct AtomicCell<T> { t: core::marker::PhantomData<T> }
impl AtomicCell<bool> {
    pub uninterp spec fn view(&self) -> bool;
    #[verifier::external_body]
    pub fn new(v: bool) -> (r: Self) ensures r@ == v { unimplemented!() }
    #[verifier::external_body]
    pub fn load(&self) -> (r: bool) ensures r == self@ { unimplemented!() }
    /// R-interior: the store through `&self` is modelled as `&mut self`
    #[verifier::external_body]
    pub fn store(&mut self, v: bool) ensures final(self)@ == v { unimplemented!() }
}
impl core::fmt::Debug for AtomicCell<bool> { #[verifier::external_body] fn fmt(&self, f: &mut core::fmt::Formatter<'_>) -> core::fmt::Result { unimplemented!() } }

/// R-arc for values: Arc::new(x) is x; cloning an Arc yields the same object (an equal value)
pub fn verif_arc_new<T>(t: T) -> (r: T) ensures r == t { t }
#[verifier::external_body]
pub fn verif_arc_clone<T>(t: &T) -> (r: T) ensures r == *t { unimplemented!() }
/// tokio::sync::broadcast (the store only creates the channel and hands a Sender to its background thread)
pub mod broadcast {
    #[verifier::external_body]
    #[verifier::reject_recursive_types(T)]
    pub struct Sender<T> { t: core::marker::PhantomData<T> }
    #[verifier::external_body]
    #[verifier::reject_recursive_types(T)]
    pub struct Receiver<T> { t: core::marker::PhantomData<T> }
    #[verifier::external_body]
    pub fn channel<T>(n: usize) -> (Sender<T>, Receiver<T>) { unimplemented!() }
    impl<T> Clone for Sender<T> { #[verifier::external_body] fn clone(&self) -> Self { unimplemented!() } }
    impl<T> core::fmt::Debug for Sender<T> { #[verifier::external_body] fn fmt(&self, f: &mut core::fmt::Formatter<'_>) -> core::fmt::Result { unimplemented!() } }
}
/// the background thread (periodic merge / sync through a clone of the Handle): spawning it has no effect of its own on the World;
/// what it does later are Handle operations like any other in the history (no interleaving is explored: TARC / C04)
pub mod verif_thread {
    #[verifier::external_body]
    pub fn spawn_background<H, S>(h: H, s: S) -> super::io::Result<()> { unimplemented!() }
}

/// `a > b` on f64 (rule R-f64-cmp): Verus leaves float comparison unspecified; it is a fixed relation on the two values
pub uninterp spec fn f64_gt(a: f64, b: f64) -> bool;
#[verifier::external_body]
pub fn verif_f64_gt(a: f64, b: f64) -> (r: bool) ensures r == f64_gt(a, b) { unimplemented!() }
/// chrono::Local::now().time().hour(): the local hour of day (0..=23); the clock is an input the contracts quantify over
pub mod chrono {
    use vstd::prelude::*;
    #[verifier::external_body]
    pub struct DateTime { k: usize }
    #[verifier::external_body]
    pub struct NaiveTime { k: usize }
    pub struct Local;
    impl Local {
        #[verifier::external_body]
        pub fn now() -> DateTime { unimplemented!() }
    }
    /// the local hour of day at the moment the policy is evaluated: an input the contracts quantify over (one evaluation reads it once)
    pub uninterp spec fn clock_hour() -> u32;
    impl DateTime {
        #[verifier::external_body]
        pub fn time(&self) -> NaiveTime { unimplemented!() }
        /// chrono::Timelike for DateTime<Local>
        #[verifier::external_body]
        pub fn hour(&self) -> (r: u32) ensures r == clock_hour(), r < 24 { unimplemented!() }
    }
    impl NaiveTime {
        #[verifier::external_body]
        pub fn hour(&self) -> (r: u32) ensures r == clock_hour(), r < 24 { unimplemented!() }
    }
}

/// the map a storage engine denotes in a given World (ghost; the engine-specific definition is given next to the engine)
pub trait KvView { spec fn kv_map(&self, w: &World) -> Map<Bytes, Bytes>; }
pub open spec fn lookup(m: Map<Bytes, Bytes>, key: Bytes) -> Option<Bytes> { if m.contains_key(key) { Some(m[key]) } else { None::<Bytes> } }

/// what a lock / pool hands out satisfies its invariant w.r.t. the current World; every operation on the
/// protected object re-establishes it (rely / guarantee; the guarantee half is what the contracts prove)
pub trait SharedInv { spec fn shared_inv(&self, w: &World) -> bool; }

#[verifier::external_body]
#[verifier::reject_recursive_types(T)]
pub struct Mutex<T> { t: T }
#[verifier::reject_recursive_types(T)]
pub struct MutexGuard<'a, T> { pub v: &'a mut T }
impl<'a, T> core::ops::Deref for MutexGuard<'a, T> { type Target = T; fn deref(&self) -> (r: &T) ensures *r == mut_ref_current(self.v) { &*self.v } }
impl<'a, T> core::ops::DerefMut for MutexGuard<'a, T> {
    fn deref_mut(&mut self) -> (r: &mut T)
        ensures *r == *(old(self).v), *(final(self).v) == *final(r), mut_ref_future(final(self).v) == mut_ref_future(old(self).v)
    { &mut *self.v }
}
impl<T: SharedInv> Mutex<T> {
    #[verifier::external_body]
    pub fn new(t: T) -> (m: Self) ensures m@ == t { unimplemented!() }
    /// the protected value (sequential reading: whoever holds the lock sees the value the previous holder left)
    pub uninterp spec fn view(&self) -> T;
    /// parking_lot::Mutex::lock: blocks until the lock is free, never poisons.  R-interior: `&self` is read as `&mut self`; the
    /// guard lends out exactly the protected value, and what it holds when it is dropped is the protected value afterwards
    #[verifier::external_body]
    pub fn lock<'a>(&'a mut self, Tracked(w): Tracked<&mut World>) -> (g: MutexGuard<'a, T>)
        ensures *final(w) == *old(w), mut_ref_current(g.v).shared_inv(final(w)),
                mut_ref_current(g.v) == old(self)@, final(self)@ == mut_ref_future(g.v)
    { unimplemented!() }
}
impl<T> core::fmt::Debug for Mutex<T> { #[verifier::external_body] fn fmt(&self, f: &mut core::fmt::Formatter<'_>) -> core::fmt::Result { unimplemented!() } }

/// crossbeam ArrayQueue used as the reader pool; the number of parked readers is tracked in the World
#[verifier::external_body]
#[verifier::reject_recursive_types(T)]
pub struct ArrayQueue<T> { t: core::marker::PhantomData<T> }
impl<T: SharedInv> ArrayQueue<T> {
    pub uninterp spec fn cap(&self) -> nat;
    /// crossbeam ArrayQueue::new panics on a zero capacity; the new (empty) pool becomes THE pool of the World
    #[verifier::external_body]
    pub fn verif_new(Tracked(w): Tracked<&mut World>, cap: usize) -> (r: Self)
        requires cap > 0,   //@[C02.open.pool_capacity_positive]
        ensures r.cap() == cap, final(w).pool_cap == cap, final(w).pool_free == 0,
                final(w).data == old(w).data, final(w).hint == old(w).hint, final(w).ever == old(w).ever,
    { unimplemented!() }
    #[verifier::external_body]
    pub fn capacity(&self) -> (r: usize) ensures r == self.cap() { unimplemented!() }
    /// `t` is one of the objects this pool was filled with (and hands out again)
    pub uninterp spec fn issued(&self, t: T) -> bool;
    #[verifier::external_body]
    pub fn pop(&self, Tracked(w): Tracked<&mut World>) -> (r: Option<T>)
        ensures final(w).data == old(w).data, final(w).hint == old(w).hint, final(w).ever == old(w).ever, final(w).pool_cap == old(w).pool_cap,
                r is None ==> final(w).pool_free == old(w).pool_free,
                // (an ArrayQueue never holds more than its capacity)
                r matches Some(t) ==> old(w).pool_free >= 1 && old(w).pool_free <= old(w).pool_cap && final(w).pool_free == old(w).pool_free - 1 && t.shared_inv(final(w)) && self.issued(t),
    { unimplemented!() }
    #[verifier::external_body]
    pub fn push(&self, t: T, Tracked(w): Tracked<&mut World>) -> (r: Result<(), T>)
        ensures final(w).data == old(w).data, final(w).hint == old(w).hint, final(w).ever == old(w).ever, final(w).pool_cap == old(w).pool_cap,
                old(w).pool_free < old(w).pool_cap ==> r is Ok && final(w).pool_free == old(w).pool_free + 1,
                r is Err ==> final(w).pool_free == old(w).pool_free,
    { unimplemented!() }
}
impl<T> core::fmt::Debug for ArrayQueue<T> { #[verifier::external_body] fn fmt(&self, f: &mut core::fmt::Formatter<'_>) -> core::fmt::Result { unimplemented!() } }
#[verifier::external_body]
pub struct Backoff { k: usize }
impl Backoff {
    #[verifier::external_body]
    pub fn new() -> Self { unimplemented!() }
    #[verifier::external_body]
    pub fn spin(&self) { unimplemented!() }
}

// a few Option combinators vstd does not specify (T1 extension)
pub assume_specification<T, U, F: FnOnce(T) -> U> [Option::<T>::map_or] (o: Option<T>, default: U, f: F) -> (r: U)
    requires o matches Some(t) ==> f.requires((t,)),
    ensures o is None ==> r == default, o matches Some(t) ==> f.ensures((t,), r);
pub assume_specification<T: Ord> [core::cmp::max] (a: T, b: T) -> (r: T)
    ensures r == a || r == b;
pub assume_specification<T: Ord> [core::cmp::min] (a: T, b: T) -> (r: T)
    ensures r == a || r == b;
