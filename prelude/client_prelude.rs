// ---- trusted shims for src/net/client.rs (unit cmd)
/// `anyhow::anyhow!(msg)`: an error value carrying the message (rule R-macro)
#[verifier::external_body]
pub fn verif_anyhow_msg(msg: String) -> anyhow::Error { unimplemented!() }
/// `std::io::Error::new(ErrorKind::ConnectionReset, "connection reset by peer")`
#[verifier::external_body]
pub fn verif_connection_reset() -> io::Error { unimplemented!() }
/// `keys.into_iter().map(Utf8Bytes::from).collect()`: std's Iterator::map + collect into a Vec apply the function to every
/// element, in order (rule R-iter-map); `Utf8Bytes::from(String)` is verified (its result holds the string's bytes)
#[verifier::external_body]
pub fn verif_map_utf8(keys: Vec<String>) -> (r: Vec<Utf8Bytes>)
    ensures r@.len() == keys@.len(), forall |i: int| 0 <= i < keys@.len() ==> (#[trigger] r@[i]).bytes() == string_bytes(&keys@[i])
{ unimplemented!() }
/// bytes::Bytes from a String holds the string's bytes
pub assume_specification [<Bytes as From<String>>::from] (s: String) -> (r: Bytes)
    ensures bv(r) == string_bytes(&s);
/// `s == "OK"` for a String and a string literal (rule R-str-eq) compares the character sequences
#[verifier::external_body]
pub fn verif_string_eq(a: &String, b: &str) -> (r: bool) ensures r == (a@ == b@) { unimplemented!() }
pub assume_specification [Bytes::new] () -> (r: Bytes)
    ensures bv(r).len() == 0;
