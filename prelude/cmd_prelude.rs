// ------------------------------ trusted prelude (unit cmd, command layer) ------------------------------
// TKV: the storage engine behind `KeyValueStorage` is a map from byte strings to byte strings; an operation that
// returns Ok has exactly the effect below, an operation that returns Err has an unspecified effect (C20 bounds it for
// the Bitcask engine).  The map is threaded as ghost state (rule R-ghost-arg) because the trait methods take &self.
pub struct KvModel { pub ghost map: Map<Seq<u8>, Seq<u8>> }

pub trait KeyValueStorage: Sized + Clone {
    type Error: Into<anyhow::Error>;
    fn set(&self, key: Bytes, value: Bytes, Tracked(m): Tracked<&mut KvModel>) -> (r: Result<(), Self::Error>)
        ensures r is Ok ==> final(m).map == old(m).map.insert(bv(key), bv(value));
    fn get(&self, key: Bytes, Tracked(m): Tracked<&mut KvModel>) -> (r: Result<Option<Bytes>, Self::Error>)
        ensures final(m).map == old(m).map,
                r matches Ok(Some(v)) ==> old(m).map.contains_key(bv(key)) && bv(v) == old(m).map[bv(key)],
                r matches Ok(None) ==> !old(m).map.contains_key(bv(key));
    fn del(&self, key: Bytes, Tracked(m): Tracked<&mut KvModel>) -> (r: Result<bool, Self::Error>)
        ensures r matches Ok(b) ==> b == old(m).map.contains_key(bv(key)) && final(m).map == old(m).map.remove(bv(key));
}

/// `net::Error` as the command modules name it
pub mod verif_net { pub use super::error::Error; }

/// tokio::task::spawn_blocking after rule R-outline: the closure body has already run at the call site; awaiting the
/// handle yields its value, or a JoinError (the runtime is shutting down; panics are not modelled)
pub mod verif_task {
    use super::*;
    #[verifier::external_body]
    pub async fn spawn_blocking<T>(v: T) -> (r: Result<T, tokio::task::JoinError>)
        ensures r matches Ok(x) ==> x == v
    { unimplemented!() }
}

pub assume_specification [<Bytes as Clone>::clone] (b: &Bytes) -> (r: Bytes)
    ensures bv(r) == bv(*b);

/// crate::shutdown::Shutdown: only passed through by Command::apply
pub struct Shutdown { k: usize }

// std::vec::IntoIter<T> (command::Parser) is covered by vstd: Vec::into_iter / Iterator::next over IteratorSpec::remaining() (T1)
// ---- &str / Utf8Error
pub uninterp spec fn str_bytes(s: &str) -> Seq<u8>;
#[verifier::external_type_specification]
#[verifier::external_body]
pub struct ExUtf8Error(std::str::Utf8Error);
pub assume_specification [std::str::from_utf8] (v: &[u8]) -> (r: Result<&str, std::str::Utf8Error>)
    ensures r is Ok <==> utf8_ok(v@),
            r matches Ok(s) ==> str_bytes(s) == v@;
/// `"DEL" == b` (bytes: impl PartialEq<Bytes> for &str compares the bytes)
pub assume_specification<'a> [<&'a str as PartialEq<Bytes>>::eq] (a: &&'a str, b: &Bytes) -> (r: bool)
    ensures r == (str_bytes(*a) == bv(*b));
/// UTF-8 encodes an ASCII character as the byte with the same number
pub axiom fn axiom_ascii_bytes(s: &str)
    requires forall |i: int| 0 <= i < s@.len() ==> (#[trigger] s@[i]) as u32 <= 127
    ensures str_bytes(s).len() == s@.len(), forall |i: int| 0 <= i < s@.len() ==> (#[trigger] str_bytes(s)[i]) == s@[i] as u8;

pub axiom fn axiom_string_ascii(s: &String)
    requires forall |i: int| 0 <= i < s@.len() ==> (#[trigger] s@[i]) as u32 <= 127
    ensures string_bytes(s).len() == s@.len(), forall |i: int| 0 <= i < s@.len() ==> (#[trigger] string_bytes(s)[i]) == s@[i] as u8;

// T13b for the key list of DEL
pub axiom fn axiom_vec_len_isize<T>(v: &Vec<T>)
    ensures v@.len() <= isize::MAX;
pub assume_specification [Bytes::is_empty] (b: &Bytes) -> (r: bool)
    ensures r == (bv(*b).len() == 0);

// ---- what Handler (server.rs) holds besides the connection and the engine
impl Shutdown {
    /// ghost: the shutdown signal has been received
    pub uninterp spec fn fired(&self) -> bool;
    /// crate::shutdown::Shutdown::is_shutdown: whether the shutdown signal has been received
    #[verifier::external_body]
    pub fn is_shutdown(&self) -> (r: bool) ensures r == self.fired() { unimplemented!() }
    /// crate::shutdown::Shutdown::recv: returns once the signal has arrived
    #[verifier::external_body]
    pub async fn recv(&mut self) -> (r: ()) ensures final(self).fired() { unimplemented!() }
}
pub struct Semaphore { k: usize }
pub mod mpsc {
    #[verifier::external_body]
    #[verifier::reject_recursive_types(T)]
    pub struct Sender<T> { k: usize, p: core::marker::PhantomData<T> }
}
/// rule R-select: which arm of a tokio::select! runs
#[verifier::external_body]
pub fn verif_select(n: usize) -> (r: usize) ensures r < n { unimplemented!() }

/// ghost transcript of one Handler::run: what has been written so far, how many requests were answered, and
/// whether the loop ended because the client closed the stream (clean_end) / the shutdown signal had been received (stopped)
pub struct RunGhost { pub ghost out: Seq<u8>, pub ghost served: nat, pub ghost clean_end: bool, pub ghost stopped: bool }

/// ghost transcript for the arbitrary-input contract of Handler::run (C10): the commands executed so far
pub struct RunGhost10 { pub ghost cmds: Seq<command::SCmd>, pub ghost out: Seq<u8> }

/// `"GET".into()`: bytes::Bytes from a &'static str holds the string's bytes
pub assume_specification [<Bytes as From<&'static str>>::from] (s: &'static str) -> (r: Bytes)
    ensures bv(r) == str_bytes(s);
