// ------------------------------ trusted prelude (unit log): byte-level shims ------------------------------
// Local (function-level) model of what log.rs stands on: files with contents, memory maps, an LRU cache
// that may forget anything, bincode as an abstract codec, OpenOptions as a flag record.
global size_of usize == 8;   // T13: 64-bit target

#[verifier::external_type_specification]
#[verifier::external_body]
pub struct ExPath(std::path::Path);
#[verifier::external_type_specification]
#[verifier::external_body]
pub struct ExPathBuf(std::path::PathBuf);
#[verifier::external_trait_specification]
pub trait ExAsRef<U: core::marker::PointeeSized>: core::marker::PointeeSized {
    type ExternalTraitSpecificationFor: AsRef<U>;
}
/// ghost reading of a file name: which file of the directory it denotes
pub uninterp spec fn path_file<P>(p: P) -> int;
/// which file of the directory is data file number `fileid`
pub uninterp spec fn data_file_no(fileid: u64) -> int;
/// the current content of a file of the directory (within one call of a verified function)
pub uninterp spec fn content_of(file: int) -> Seq<u8>;

pub mod io {
    use super::*;
    #[verifier::external_body]
    #[derive(Debug)]
    pub struct Error { k: usize }
    pub type Result<T> = core::result::Result<T, Error>;
    #[derive(Debug, Clone, Copy)]
    pub enum ErrorKind { NotFound, AlreadyExists, UnexpectedEof, Other }
    impl Error {
        pub uninterp spec fn spec_kind(&self) -> ErrorKind;
        #[verifier::external_body]
        pub fn kind(&self) -> (k: ErrorKind) ensures k == self.spec_kind() { unimplemented!() }
    }
    /// std::io::Write as far as `copy_raw` is concerned: a sink that records what it was given
    pub trait Write {
        spec fn written(&self) -> Seq<u8>;
    }
    /// io::copy(reader over a byte slice, dst): on Ok all bytes were appended to dst
    #[verifier::external_body]
    pub fn copy<W: Write>(src: &mut SliceReader, dst: &mut W) -> (r: Result<u64>)
        ensures r matches Ok(n) ==> n == old(src).bytes().len() && final(dst).written() == old(dst).written() + old(src).bytes()
    { unimplemented!() }
    /// `<&[u8] as bytes::Buf>::reader()`
    #[verifier::external_body]
    pub struct SliceReader { k: usize }
    impl SliceReader { pub uninterp spec fn bytes(&self) -> Seq<u8>; }
}

pub mod fs {
    use super::*;
    /// which flags a file was opened with (C14 is about these)
    pub struct OpenFlags { pub read: bool, pub append: bool, pub create_new: bool, pub write: bool, pub truncate: bool, pub create: bool }
    pub open spec fn no_flags() -> OpenFlags { OpenFlags { read: false, append: false, create_new: false, write: false, truncate: false, create: false } }
    #[verifier::external_body]
    #[derive(Debug)]
    pub struct File { k: usize }
    impl File {
        pub uninterp spec fn file(&self) -> int;
        pub uninterp spec fn flags(&self) -> OpenFlags;
        /// the file's current content (files only grow: C14)
        pub open spec fn content(&self) -> Seq<u8> { content_of(self.file()) }
        /// fsync.  `synced_ok(f)` is an uninterpreted fact that only a successful call of sync_all on file `f` provides: a function
        /// whose postcondition demands it can only be proved if such a call lies on every path on which it returns Ok (C09)
        #[verifier::external_body]
        pub fn sync_all(&self) -> (r: io::Result<()>)
            ensures r is Ok ==> synced_ok(self.file())
        { unimplemented!() }
    }
    pub uninterp spec fn synced_ok(file: int) -> bool;
    pub struct OpenOptions { pub ghost f: OpenFlags }
    impl OpenOptions {
        #[verifier::external_body]
        pub fn new() -> (r: OpenOptions) ensures r.f == no_flags() { unimplemented!() }
        #[verifier::external_body]
        pub fn read(&mut self, v: bool) -> (r: &mut OpenOptions) ensures *r == (OpenOptions { f: OpenFlags { read: v, ..old(self).f } }), *final(self) == *final(r) { unimplemented!() }
        #[verifier::external_body]
        pub fn append(&mut self, v: bool) -> (r: &mut OpenOptions) ensures *r == (OpenOptions { f: OpenFlags { append: v, ..old(self).f } }), *final(self) == *final(r) { unimplemented!() }
        #[verifier::external_body]
        pub fn create_new(&mut self, v: bool) -> (r: &mut OpenOptions) ensures *r == (OpenOptions { f: OpenFlags { create_new: v, ..old(self).f } }), *final(self) == *final(r) { unimplemented!() }
        #[verifier::external_body]
        pub fn write(&mut self, v: bool) -> (r: &mut OpenOptions) ensures *r == (OpenOptions { f: OpenFlags { write: v, ..old(self).f } }), *final(self) == *final(r) { unimplemented!() }
        #[verifier::external_body]
        pub fn truncate(&mut self, v: bool) -> (r: &mut OpenOptions) ensures *r == (OpenOptions { f: OpenFlags { truncate: v, ..old(self).f } }), *final(self) == *final(r) { unimplemented!() }
        #[verifier::external_body]
        pub fn create(&mut self, v: bool) -> (r: &mut OpenOptions) ensures *r == (OpenOptions { f: OpenFlags { create: v, ..old(self).f } }), *final(self) == *final(r) { unimplemented!() }
        #[verifier::external_body]
        pub fn open<P: AsRef<Path>>(&self, p: P) -> (r: io::Result<File>)
            ensures r matches Ok(f) ==> f.flags() == self.f && f.file() == path_file(p)
        { unimplemented!() }
    }
}

pub mod memmap2 {
    use super::*;
    /// a read-only mapping: a snapshot of a prefix of the file taken when it was mapped; it never changes
    #[verifier::external_body]
    #[derive(Debug)]
    pub struct Mmap { k: usize }
    impl View for Mmap { type V = Seq<u8>; uninterp spec fn view(&self) -> Seq<u8>; }
    impl Mmap {
        #[verifier::external_body]
        pub fn len(&self) -> (r: usize) ensures r == self@.len() { unimplemented!() }
        /// `&mmap[start..end]` (rule R-deref-slice); out of range panics in the real code: a precondition here
        #[verifier::external_body]
        pub fn verif_slice(&self, start: usize, end: usize) -> (r: &[u8])
            requires start <= end <= self@.len(),    //@[C04.reader.slice_in_bounds]
            ensures r@ == self@.subrange(start as int, end as int)
        { unimplemented!() }
    }
    pub struct MmapOptions { k: usize }
    impl MmapOptions {
        #[verifier::external_body]
        pub fn new() -> MmapOptions { unimplemented!() }
        /// maps the whole file as it is now
        #[verifier::external_body]
        pub unsafe fn map(&self, f: &fs::File) -> (r: io::Result<Mmap>)
            ensures r matches Ok(m) ==> m@ == f.content()
        { unimplemented!() }
    }
}
#[verifier::external_body]
pub fn verif_slice_reader(s: &[u8]) -> (r: io::SliceReader) ensures r.bytes() == s@ { unimplemented!() }

/// T11 bincode as an abstract codec
pub trait Serialize { spec fn enc(&self) -> Seq<u8>; }
pub trait DeserializeOwned: Sized { spec fn dec(b: Seq<u8>) -> Option<Self>; }
pub mod bincode {
    use super::*;
    #[verifier::external_body]
    #[derive(Debug)]
    pub struct Error { k: usize }
    pub type Result<T> = core::result::Result<T, Error>;
    /// what `e.as_ref()` shows
    pub enum ErrorKind { Io(io::Error), Other }
    impl Error {
        pub uninterp spec fn spec_ref(&self) -> ErrorKind;
        #[verifier::external_body]
        pub fn as_ref(&self) -> (r: &ErrorKind) ensures *r == self.spec_ref() { unimplemented!() }
    }
    /// bincode's `impl From<io::Error> for Error` (Box<ErrorKind>::Io)
    impl From<io::Error> for Error {
        #[verifier::external_body]
        fn from(e: io::Error) -> (r: Error) ensures r.spec_ref() == ErrorKind::Io(e) { unimplemented!() }
    }
    impl vstd::std_specs::convert::FromSpecImpl<io::Error> for Error {
        open spec fn obeys_from_spec() -> bool { false }
        uninterp spec fn from_spec(e: io::Error) -> Error;
    }
    #[verifier::external_body]
    pub fn deserialize<T: DeserializeOwned>(b: &[u8]) -> (r: Result<T>)
        ensures r matches Ok(t) ==> T::dec(b@) == Some(t)
    { unimplemented!() }
    /// serialize into the position-tracking buffered writer: the encoding is handed to the writer in one or
    /// more `write` calls; on error an arbitrary prefix was handed over
    #[verifier::external_body]
    pub fn serialize_into<T: Serialize>(wr: &mut BufWriterWithPos<fs::File>, e: &T) -> (r: Result<()>)
        ensures
            final(wr).file() == old(wr).file(),
            r is Ok ==> final(wr).handed() == old(wr).handed() + e.enc() && final(wr).spec_pos() == old(wr).spec_pos() + e.enc().len(),
            r is Err ==> final(wr).spec_pos() >= old(wr).spec_pos(),
            old(wr).spec_pos() + e.enc().len() < 0x4000_0000_0000_0000,
    { unimplemented!() }
    /// deserialize from the position-tracking buffered reader: consumes exactly one encoding, or reports
    /// UnexpectedEof (as Io) when fewer bytes remain
    #[verifier::external_body]
    pub fn deserialize_from<T: DeserializeOwned>(rd: &mut BufReaderWithPos<fs::File>) -> (r: Result<T>)
        ensures
            final(rd).spec_pos() >= old(rd).spec_pos(), final(rd).spec_pos() < 0x4000_0000_0000_0000,
            r matches Ok(t) ==> T::dec(old(rd).rest().take(final(rd).spec_pos() - old(rd).spec_pos())) == Some(t)
                && final(rd).rest() == old(rd).rest().skip(final(rd).spec_pos() - old(rd).spec_pos())
                && final(rd).spec_pos() - old(rd).spec_pos() <= old(rd).rest().len(),
            // T11: the error is UnexpectedEof exactly when the remaining bytes do not start with a complete encoding
            // (the encoding is self-delimiting); any other error says nothing about what is in the file
            (r matches Err(e) && is_eof(e)) ==> !starts_with_record::<T>(old(rd).rest()),
    { unimplemented!() }
    pub open spec fn is_eof(e: Error) -> bool { e.spec_ref() matches ErrorKind::Io(ioe) && ioe.spec_kind() is UnexpectedEof }
    pub open spec fn starts_with_record<T: DeserializeOwned>(rest: Seq<u8>) -> bool {
        exists |n: int| 0 <= n <= rest.len() && (#[trigger] T::dec(rest.take(n))) is Some
    }
}

/// bufio.rs (its bodies are verified in unit bufio against shim Read / Write / Seek traits; here only the shape): position-tracking
/// wrappers around std's BufWriter / BufReader
#[verifier::external_body]
#[verifier::reject_recursive_types(W)]
#[derive(Debug)]
pub struct BufWriterWithPos<W> { w: W }
impl BufWriterWithPos<fs::File> {
    pub uninterp spec fn file(&self) -> int;
    pub uninterp spec fn spec_pos(&self) -> u64;
    /// everything handed to the writer so far (buffered or written)
    pub uninterp spec fn handed(&self) -> Seq<u8>;
    /// how much of `handed` has reached the file
    pub uninterp spec fn flushed(&self) -> int;
    #[verifier::external_body]
    pub fn new(f: fs::File) -> (r: io::Result<Self>)
        ensures r matches Ok(b) ==> b.file() == f.file() && b.handed() == Seq::<u8>::empty() && b.flushed() == 0
    { unimplemented!() }
    #[verifier::external_body]
    pub fn pos(&self) -> (r: u64) ensures r == self.spec_pos() { unimplemented!() }
    #[verifier::external_body]
    pub fn get_ref(&self) -> (r: &fs::File) ensures r.file() == self.file() { unimplemented!() }
    #[verifier::external_body]
    pub fn flush(&mut self) -> (r: io::Result<()>)
        ensures final(self).file() == old(self).file(), final(self).spec_pos() == old(self).spec_pos(), final(self).handed() == old(self).handed(),
                r is Ok ==> final(self).flushed() == final(self).handed().len(),
    { unimplemented!() }
}
#[verifier::external_body]
#[verifier::reject_recursive_types(R)]
#[derive(Debug)]
pub struct BufReaderWithPos<R> { r: R }
impl BufReaderWithPos<fs::File> {
    pub uninterp spec fn file(&self) -> int;
    pub uninterp spec fn spec_pos(&self) -> u64;
    /// the bytes of the file from the current position on
    pub uninterp spec fn rest(&self) -> Seq<u8>;
    #[verifier::external_body]
    pub fn new(f: fs::File) -> (r: io::Result<Self>)
        ensures r matches Ok(b) ==> b.file() == f.file() && b.rest() == f.content()
    { unimplemented!() }
    #[verifier::external_body]
    pub fn pos(&self) -> (r: u64) ensures r == self.spec_pos() { unimplemented!() }
}

/// T9 lru::LruCache: a partial map that may forget any entry at any time
#[verifier::external_body]
#[verifier::reject_recursive_types(K)]
#[verifier::reject_recursive_types(V)]
#[derive(Debug)]
pub struct LruCache<K, V> { m: core::marker::PhantomData<(K, V)> }
impl<V> LruCache<u64, V> {
    pub uninterp spec fn view(&self) -> Map<u64, V>;
    #[verifier::external_body]
    pub fn new(size: usize) -> (r: Self) ensures r@ == Map::<u64, V>::empty() { unimplemented!() }
    #[verifier::external_body]
    pub fn get_mut(&mut self, k: &u64) -> (r: Option<&mut V>)
        ensures
            r is None ==> final(self)@ == old(self)@,
            r matches Some(v) ==> old(self)@.contains_key(*k) && *v == old(self)@[*k] && final(self)@ == old(self)@.insert(*k, *final(v)),
    { unimplemented!() }
    /// may or may not retain the entry, may evict anything else
    #[verifier::external_body]
    pub fn put(&mut self, k: u64, v: V) -> (r: Option<V>)
        ensures forall |i: u64| #[trigger] final(self)@.contains_key(i) ==> (i == k && final(self)@[i] == v) || (old(self)@.contains_key(i) && final(self)@[i] == old(self)@[i])
    { unimplemented!() }
}
