// ghost state of log.rs' (opaque) handle types, and T11's record-size function
impl LogWriter {
    pub uninterp spec fn id(&self) -> u64;
    pub uninterp spec fn kind(&self) -> Kind;
}
impl LogIterator {
    pub uninterp spec fn id(&self) -> u64;
    pub uninterp spec fn kind(&self) -> Kind;
    /// index of the next record to be yielded
    pub uninterp spec fn idx(&self) -> nat;
}
/// T11: the encoded size of a data entry depends only on the sizes of key and value and on whether there is a value
pub uninterp spec fn enc_len(k: Bytes, v: Option<Bytes>) -> u64;

/// LogStatistics::fragmentation is a pure function of the three counters (f64 arithmetic is outside Verus's subset: uninterpreted)
pub uninterp spec fn spec_fragmentation(s: LogStatistics) -> f64;
