// T11: the views of the repo's two entry types (stand for their serde derives)
impl Serialize for DataFileEntry {
    closed spec fn data_view(&self) -> Option<(Bytes, Option<Bytes>, i64)> { Some((self.key, self.value, self.tstamp)) }
    closed spec fn hint_view(&self) -> Option<HRec> { None }
}
impl DeserializeOwned for DataFileEntry {
    closed spec fn de_data_view(&self) -> Option<(Bytes, Option<Bytes>, i64)> { Some((self.key, self.value, self.tstamp)) }
    closed spec fn de_hint_view(&self) -> Option<HRec> { None }
}
impl Serialize for HintFileEntry {
    closed spec fn data_view(&self) -> Option<(Bytes, Option<Bytes>, i64)> { None }
    closed spec fn hint_view(&self) -> Option<HRec> { Some(HRec { key: self.key, tstamp: self.tstamp, pos: self.pos, len: self.len }) }
}
impl DeserializeOwned for HintFileEntry {
    closed spec fn de_data_view(&self) -> Option<(Bytes, Option<Bytes>, i64)> { None }
    closed spec fn de_hint_view(&self) -> Option<HRec> { Some(HRec { key: self.key, tstamp: self.tstamp, pos: self.pos, len: self.len }) }
}
impl DefaultSpec for LogStatistics {
    open spec fn default_spec() -> Self { LogStatistics { live_keys: 0, dead_keys: 0, dead_bytes: 0 } }
}

/// TARC, the one place where it is used as a fact: a Reader handed out by the Handle's pool holds an Arc of the SAME Context as the
/// Handle's Writer (Bitcask::open builds all of them from clones of one Arc), so it sees the key directory the Writer last
/// published.  Under R-arc the three copies are separate values, so this cannot be derived and is assumed.
#[verifier::external_body]
proof fn axiom_arc_shared_context(h: &Handle, r: &Reader)
    requires h.readers.issued(*r)
    ensures r.ctx.keydir@ == h.writer@.ctx.keydir@
{}
