// ------------------------------ trusted prelude (unit bufio) ------------------------------
// Shims for std::io's Read / Write / Seek traits and BufReader / BufWriter, with a ghost LOGICAL POSITION:
// `lpos()` is the offset, in the underlying stream, of the next byte the caller will read / write (for a buffered
// writer: bytes in the file plus bytes in the buffer; for a buffered reader: file offset minus bytes still buffered).
// This is what std documents for `BufWriter` / `BufReader` combined with `Seek::stream_position`.  Positions are below
// 2^63 (files shorter than 8 EiB); a read or write never reports more bytes than the slice holds.
pub mod io {
    use super::*;
    #[verifier::external_body]
    #[derive(Debug)]
    pub struct Error { k: usize }
    pub type Result<T> = core::result::Result<T, Error>;
    pub enum SeekFrom { Start(u64), End(i64), Current(i64) }

    /// the ghost state every stream has: its logical position and what must hold before a call (for the wrappers of
    /// bufio.rs: their own well-formedness)
    pub trait Stream {
        spec fn lpos(&self) -> int;
        spec fn pre(&self) -> bool;
    }
    pub trait Read: Stream {
        fn read(&mut self, b: &mut [u8]) -> (r: Result<usize>)
            requires old(self).pre()
            ensures final(self).pre(), final(b)@.len() == old(b)@.len(),
                    r matches Ok(n) ==> n <= old(b)@.len() && final(self).lpos() == old(self).lpos() + n,
                    // std: "If an error is returned then it must be guaranteed that no bytes were read."
                    r is Err ==> final(self).lpos() == old(self).lpos();
    }
    pub trait Write: Stream {
        fn write(&mut self, b: &[u8]) -> (r: Result<usize>)
            requires old(self).pre()
            ensures final(self).pre(),
                    r matches Ok(n) ==> n <= b@.len() && final(self).lpos() == old(self).lpos() + n,
                    r is Err ==> final(self).lpos() == old(self).lpos();
        fn flush(&mut self) -> (r: Result<()>)
            requires old(self).pre()
            ensures final(self).pre(), final(self).lpos() == old(self).lpos();
    }
    pub trait Seek: Stream {
        fn seek(&mut self, pos: SeekFrom) -> (r: Result<u64>)
            requires old(self).pre()
            // after a failed seek the position is unspecified (std), so nothing is promised then
            ensures r is Ok ==> final(self).pre(),
                    r matches Ok(p) ==> final(self).lpos() == p,
                    (r is Ok && pos == SeekFrom::Current(0)) ==> r->Ok_0 == old(self).lpos(),
                    (r is Ok && pos is Start) ==> r->Ok_0 == pos->Start_0;
    }

    #[verifier::external_body]
    #[verifier::reject_recursive_types(R)]
    #[derive(Debug)]
    pub struct BufReader<R> { r: R }
    impl<R: Read> BufReader<R> {
        pub uninterp spec fn blpos(&self) -> int;
        #[verifier::external_body]
        pub fn new(r: R) -> (b: Self) ensures b.blpos() == r.lpos(), 0 <= b.blpos() < 0x8000_0000_0000_0000 { unimplemented!() }
    }
    impl<R: Read> Stream for BufReader<R> {
        open spec fn lpos(&self) -> int { self.blpos() }
        open spec fn pre(&self) -> bool { 0 <= self.blpos() < 0x8000_0000_0000_0000 }
    }
    impl<R: Read> Read for BufReader<R> {
        #[verifier::external_body]
        fn read(&mut self, b: &mut [u8]) -> (r: Result<usize>) { unimplemented!() }
    }
    impl<R: Read + Seek> Seek for BufReader<R> {
        #[verifier::external_body]
        fn seek(&mut self, pos: SeekFrom) -> (r: Result<u64>) { unimplemented!() }
    }

    #[verifier::external_body]
    #[verifier::reject_recursive_types(W)]
    #[derive(Debug)]
    pub struct BufWriter<W: Write> { w: W }
    impl<W: Write> BufWriter<W> {
        pub uninterp spec fn blpos(&self) -> int;
        #[verifier::external_body]
        pub fn new(w: W) -> (b: Self) ensures b.blpos() == w.lpos(), 0 <= b.blpos() < 0x8000_0000_0000_0000 { unimplemented!() }
        #[verifier::external_body]
        pub fn get_ref(&self) -> (r: &W) { unimplemented!() }
    }
    impl<W: Write> Stream for BufWriter<W> {
        open spec fn lpos(&self) -> int { self.blpos() }
        open spec fn pre(&self) -> bool { 0 <= self.blpos() < 0x8000_0000_0000_0000 }
    }
    impl<W: Write> Write for BufWriter<W> {
        #[verifier::external_body]
        fn write(&mut self, b: &[u8]) -> (r: Result<usize>) { unimplemented!() }
        #[verifier::external_body]
        fn flush(&mut self) -> (r: Result<()>) { unimplemented!() }
    }
    impl<W: Write + Seek> Seek for BufWriter<W> {
        #[verifier::external_body]
        fn seek(&mut self, pos: SeekFrom) -> (r: Result<u64>) { unimplemented!() }
    }
}

