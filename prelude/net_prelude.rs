// ------------------------------ trusted prelude (unit net) ------------------------------
global size_of usize == 8;   // T13: 64-bit target

// Assumed specifications of the *real* std::io::Cursor, bytes::Buf, bytes::Bytes, String.
// Verus checks that every signature below matches the real item; the `ensures` are trusted (T2-T5).

#[verifier::external_type_specification]
#[verifier::external_body]
#[verifier::reject_recursive_types(T)]
pub struct ExCursor<T>(Cursor<T>);

#[verifier::external_type_specification]
#[verifier::external_body]
pub struct ExBytes(Bytes);

#[verifier::external_type_specification]
#[verifier::external_body]
pub struct ExFromUtf8Error(std::string::FromUtf8Error);

#[verifier::external_trait_specification]
pub trait ExAsRef<U: core::marker::PointeeSized>: core::marker::PointeeSized {
    type ExternalTraitSpecificationFor: AsRef<U>;
}

pub uninterp spec fn cur_pos<T>(c: &Cursor<T>) -> u64;
pub uninterp spec fn cur_inner<T>(c: &Cursor<T>) -> T;
pub uninterp spec fn as_ref_seq<T>(t: T) -> Seq<u8>;
pub broadcast axiom fn axiom_as_ref_slice(s: &[u8])
    ensures #[trigger] as_ref_seq::<&[u8]>(s) == s@;

pub assume_specification<T>[ Cursor::<T>::new ](inner: T) -> (c: Cursor<T>)
    ensures cur_pos(&c) == 0, cur_inner(&c) == inner;
pub assume_specification<T>[ Cursor::<T>::position ](c: &Cursor<T>) -> (r: u64)
    ensures r == cur_pos(c);
pub assume_specification<T>[ Cursor::<T>::set_position ](c: &mut Cursor<T>, pos: u64)
    ensures cur_pos(final(c)) == pos, cur_inner(final(c)) == cur_inner(old(c));
pub assume_specification<T>[ Cursor::<T>::get_ref ](c: &Cursor<T>) -> (r: &T)
    ensures *r == cur_inner(c);

// bytes::Bytes: an immutable byte string with a Seq<u8> view
pub uninterp spec fn bv(b: Bytes) -> Seq<u8>;

#[verifier::external_trait_specification]
#[verifier::external_trait_extension(BufSpec via BufSpecImpl)]
pub trait ExBuf {
    type ExternalTraitSpecificationFor: Buf;
    spec fn rem_bytes(&self) -> Seq<u8>;
    spec fn advanced(&self, cnt: int, post: &Self) -> bool;

    fn remaining(&self) -> (r: usize)
        ensures r == self.rem_bytes().len();
    fn has_remaining(&self) -> (r: bool)
        ensures r == (self.rem_bytes().len() > 0);
    fn chunk(&self) -> (r: &[u8])
        ensures r@ == self.rem_bytes();
    fn advance(&mut self, cnt: usize)
        requires cnt <= old(self).rem_bytes().len(),   //@[buf.advance.in_bounds]
        ensures old(self).advanced(cnt as int, final(self));
    fn get_u8(&mut self) -> (r: u8)
        requires old(self).rem_bytes().len() >= 1,     //@[buf.get_u8.nonempty]
        ensures old(self).advanced(1, final(self)), r == old(self).rem_bytes()[0];
    fn copy_to_bytes(&mut self, len: usize) -> (r: Bytes)
        requires len <= old(self).rem_bytes().len(),   //@[buf.copy_to_bytes.in_bounds]
        ensures old(self).advanced(len as int, final(self)), bv(r) == old(self).rem_bytes().take(len as int);
}

impl<T: AsRef<[u8]>> BufSpecImpl for Cursor<T> {
    open spec fn rem_bytes(&self) -> Seq<u8> {
        if cur_pos(self) >= as_ref_seq(cur_inner(self)).len() { Seq::empty() } else { as_ref_seq(cur_inner(self)).skip(cur_pos(self) as int) }
    }
    open spec fn advanced(&self, cnt: int, post: &Self) -> bool {
        cur_pos(post) == cur_pos(self) + cnt && cur_inner(post) == cur_inner(self)
    }
}
impl<'b, T: Buf> BufSpecImpl for &'b mut T {
    open spec fn rem_bytes(&self) -> Seq<u8> { (**self).rem_bytes() }
    open spec fn advanced(&self, cnt: int, post: &Self) -> bool { (**self).advanced(cnt, &**post) }
}

// String / UTF-8 (T5)
pub uninterp spec fn utf8_ok(v: Seq<u8>) -> bool;
pub uninterp spec fn string_bytes(s: &String) -> Seq<u8>;
pub assume_specification [std::string::String::from_utf8] (v: Vec<u8>) -> (r: Result<String, std::string::FromUtf8Error>)
    ensures r is Ok <==> utf8_ok(v@),
            r matches Ok(s) ==> string_bytes(&s) == v@;
pub assume_specification [std::string::String::from_utf8_lossy] (v: &[u8]) -> std::borrow::Cow<'_, str>;
pub assume_specification [std::string::String::as_bytes] (s: &String) -> (r: &[u8])
    ensures r@ == string_bytes(s);
pub assume_specification<T: Clone> [<[T]>::to_vec] (s: &[T]) -> (r: Vec<T>)
    ensures r@ == s@;

pub assume_specification [u8::is_ascii_digit] (b: &u8) -> (r: bool)
    ensures r == (48 <= *b <= 57);

// T14 / C07.prealloc: every `Vec::with_capacity(n)` of the extracted code is redirected here (rule
// R-prealloc); the budget is a ghost value the contract of the enclosing function must define as a
// number of input bytes actually present.
pub fn verif_with_capacity<T>(n: usize, Ghost(budget): Ghost<int>) -> (v: Vec<T>)
    requires n <= budget,   //@[C07.prealloc]
    ensures v@.len() == 0,
{
    Vec::with_capacity(n)
}

// comparison `&[u8] == / != &[u8; N]` (core's generic impls; vstd routes them through eq_spec)
pub broadcast axiom fn axiom_slice_array_eq<const N: usize>(a: &[u8], b: &[u8; N])
    ensures
        #[trigger] <[u8] as vstd::std_specs::cmp::PartialEqSpec<[u8; N]>>::eq_spec(a, b) == (a@ == b@),
        <[u8] as vstd::std_specs::cmp::PartialEqSpec<[u8; N]>>::obeys_eq_spec();

// T5: a String always holds valid UTF-8; T4: a Bytes never holds more than isize::MAX bytes.
pub axiom fn axiom_string_utf8(s: &String)
    ensures utf8_ok(string_bytes(s));
pub axiom fn axiom_bytes_len(b: Bytes)
    ensures bv(b).len() <= isize::MAX;
