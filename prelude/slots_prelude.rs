// ------------------------------ trusted prelude (unit slots, C15) ------------------------------
// Shims (same names as the real dependencies) for what the accept loop and the handler's destructor touch.  The permits of the
// tokio Semaphore are tracked in a ghost `Slots` value threaded through the calls (rule R-ghost-arg), because the semaphore is
// shared through an Arc between the listener and every handler: every semaphore operation is ONE atomic step on these counters.
global size_of usize == 8;   // T13: 64-bit target

pub struct Slots {
    /// the configured maximum (Semaphore::new(conf.max_connections) in Server::new)
    pub ghost max: int,
    /// permits the semaphore can still hand out
    pub ghost avail: int,
    /// permits taken by acquire and held by a live SemaphorePermit guard (given back when the guard is dropped)
    pub ghost held: int,
    /// permits taken for good (guard forgotten): whoever owns one must give it back with add_permits
    pub ghost owed: int,
    /// connection tasks spawned and not yet finished
    pub ghost handlers: int,
}

pub mod io {
    #[verifier::external_body]
    #[derive(Debug)]
    pub struct Error { k: usize }
    pub type Result<T> = core::result::Result<T, Error>;
}
pub mod anyhow { #[verifier::external_body] #[derive(Debug)] pub struct Error { k: usize } }
pub mod frame { #[verifier::external_body] #[derive(Debug)] pub struct Error { k: usize } }
pub mod command { #[verifier::external_body] #[derive(Debug)] pub struct Error { k: usize } }
pub mod tokio {
    pub mod task { #[verifier::external_body] #[derive(Debug)] pub struct JoinError { k: usize } }
    use vstd::prelude::*;
    use super::Slots;
    /// tokio::spawn: the task is started; it ends when its future completes (or unwinds), at which point everything it owns is dropped
    #[verifier::external_body]
    pub fn spawn<F: core::future::Future>(f: F, Tracked(g): Tracked<&mut Slots>)
        ensures final(g).handlers == old(g).handlers + 1, final(g).avail == old(g).avail, final(g).held == old(g).held,
                final(g).owed == old(g).owed, final(g).max == old(g).max
    { unimplemented!() }
}

#[verifier::external_body]
pub struct Semaphore { k: usize }
#[verifier::external_body]
pub struct SemaphorePermit<'a> { s: &'a Semaphore }
#[verifier::external_body]
#[derive(Debug)]
pub struct AcquireError { k: usize }
impl Semaphore {
    /// a fresh semaphore with `permits` permits: the initial state of the accounting
    #[verifier::external_body]
    pub fn verif_new(Tracked(g): Tracked<&mut Slots>, permits: usize) -> (r: Semaphore)
        ensures final(g).max == permits, final(g).avail == permits, final(g).held == 0, final(g).owed == 0, final(g).handlers == 0
    { unimplemented!() }
    /// T-SEM: acquire completes only when a permit is available and takes it (atomically); the permit is held by the returned guard.
    /// It fails only on a closed semaphore, and nothing in src/ closes it.
    #[verifier::external_body]
    pub async fn acquire(&self, Tracked(g): Tracked<&mut Slots>) -> (r: Result<SemaphorePermit<'_>, AcquireError>)
        ensures r is Ok, old(g).avail > 0,
                final(g).avail == old(g).avail - 1, final(g).held == old(g).held + 1,
                final(g).owed == old(g).owed, final(g).handlers == old(g).handlers, final(g).max == old(g).max
    { unimplemented!() }
    #[verifier::external_body]
    pub fn add_permits(&self, n: usize, Tracked(g): Tracked<&mut Slots>)
        ensures final(g).avail == old(g).avail + n, final(g).owed == old(g).owed - n,
                final(g).held == old(g).held, final(g).handlers == old(g).handlers, final(g).max == old(g).max
    { unimplemented!() }
}
impl<'a> SemaphorePermit<'a> {
    /// the guard is destroyed WITHOUT giving its permit back
    #[verifier::external_body]
    pub fn forget(self, Tracked(g): Tracked<&mut Slots>)
        ensures final(g).held == old(g).held - 1, final(g).owed == old(g).owed + 1,
                final(g).avail == old(g).avail, final(g).handlers == old(g).handlers, final(g).max == old(g).max
    { unimplemented!() }
}

#[verifier::external_body]
pub struct TcpListener { k: usize }
#[verifier::external_body]
pub struct TcpStream { k: usize }
#[verifier::external_body]
pub struct SocketAddr { k: usize }
impl TcpStream {
    /// socket queries / options: they can fail (e.g. the peer has already reset the connection) and do not touch the permits
    #[verifier::external_body]
    pub fn peer_addr(&self) -> io::Result<SocketAddr> { unimplemented!() }
    #[verifier::external_body]
    pub fn local_addr(&self) -> io::Result<SocketAddr> { unimplemented!() }
    #[verifier::external_body]
    pub fn set_nodelay(&self, on: bool) -> io::Result<()> { unimplemented!() }
}
#[verifier::external_body]
#[derive(Debug)]
pub struct IpAddr { k: usize }
/// `&format!("{}:{}", conf.host, conf.port)` (rule R-macro): the textual socket address
#[verifier::external_body]
pub fn verif_socket_addr(host: &IpAddr, port: u16) -> String { unimplemented!() }
impl TcpListener {
    #[verifier::external_body]
    pub async fn bind(addr: &String) -> io::Result<TcpListener> { unimplemented!() }
    #[verifier::external_body]
    pub async fn accept(&self) -> io::Result<(TcpStream, SocketAddr)> { unimplemented!() }
}
#[verifier::external_body]
pub struct Duration { k: usize }
impl Duration {
    #[verifier::external_body]
    pub fn from_millis(ms: u64) -> Duration { unimplemented!() }
}
pub mod time {
    #[verifier::external_body]
    pub async fn sleep(d: super::Duration) { unimplemented!() }
}
pub mod broadcast {
    #[verifier::external_body]
    pub fn channel<T>(n: usize) -> (Sender<T>, Receiver<T>) { unimplemented!() }
    #[verifier::external_body]
    #[verifier::reject_recursive_types(T)]
    pub struct Sender<T> { t: core::marker::PhantomData<T> }
    #[verifier::external_body]
    #[verifier::reject_recursive_types(T)]
    pub struct Receiver<T> { t: core::marker::PhantomData<T> }
    #[verifier::external_body]
    #[derive(Debug)]
    pub struct RecvError { k: usize }
    impl<T> Sender<T> {
        #[verifier::external_body]
        pub fn subscribe(&self) -> Receiver<T> { unimplemented!() }
    }
    impl<T> Receiver<T> {
        #[verifier::external_body]
        pub async fn recv(&mut self) -> Result<T, RecvError> { unimplemented!() }
    }
}
pub mod mpsc {
    #[verifier::external_body]
    pub fn channel<T>(n: usize) -> (Sender<T>, Receiver<T>) { unimplemented!() }
    #[verifier::external_body]
    #[verifier::reject_recursive_types(T)]
    pub struct Sender<T> { t: core::marker::PhantomData<T> }
    impl<T> Clone for Sender<T> { #[verifier::external_body] fn clone(&self) -> Self { unimplemented!() } }
    #[verifier::external_body]
    #[verifier::reject_recursive_types(T)]
    pub struct Receiver<T> { t: core::marker::PhantomData<T> }
}
/// the storage handle is only cloned into each handler here
pub trait KeyValueStorage: Clone {}
/// net::connection::Connection (verified in unit net): only constructed here
#[verifier::external_body]
pub struct Connection { k: usize }
impl Connection {
    #[verifier::external_body]
    pub fn new(s: TcpStream) -> Connection { unimplemented!() }
}
