// ------------------------------ trusted prelude (unit refine): the codec, abstractly (T11) ------------------------------
pub struct E { pub tstamp: int, pub key: Seq<u8>, pub val: Option<Seq<u8>> }
pub uninterp spec fn enc(e: E) -> Seq<u8>;
pub uninterp spec fn dec(b: Seq<u8>) -> Option<E>;
/// T11 (bincode as an abstract codec): decoding succeeds exactly on an encoding, encodings are non-empty and self-delimiting
/// (no encoding is a strict prefix of another: lengths are written in front of the bytes they count)
pub axiom fn axiom_codec(e: E, b: Seq<u8>, e2: E)
    ensures
        dec(enc(e)) == Some(e), enc(e).len() > 0,
        dec(b) matches Some(x) ==> b == enc(x),
        (enc(e).len() <= enc(e2).len() && enc(e2).take(enc(e).len() as int) == enc(e)) ==> e == e2;

