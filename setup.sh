#!/bin/sh
# Build the real dependency crates the Verus prelude links against, with Verus's pinned toolchain, offline.
set -e
cd "$(dirname "$0")"
export CARGO_NET_OFFLINE=true
export CARGO_TARGET_DIR="$PWD/build/verus-deps"
mkdir -p build evidence replays
( cd deps/verus-deps && cargo +1.98.1-x86_64-unknown-linux-gnu build --offline --quiet )
ls "$CARGO_TARGET_DIR"/debug/deps/libbytes-*.rlib >/dev/null
echo "setup ok"
# pre-build the replayer (used only to attach a concrete input to an already reported violation)
python3 -c "import sys; sys.path.insert(0,'tools'); import witness; witness.build()" || echo "replayer pre-build failed (non-fatal)"
