#!/bin/sh
# dev helper: generate a unit and run verus on it
cd /verif
UNIT=$1; python3 tools/gen.py "$1" || exit 2
shift
RLIB=$(ls build/verus-deps/debug/deps/libbytes-*.rlib)
exec verus build/gen/$UNIT.rs --extern bytes=$RLIB -L dependency=build/verus-deps/debug/deps "$@"
