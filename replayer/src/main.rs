//! Witness search / replay against the *real* crate built from the working tree.
//! Used only after Verus has reported a failed obligation, to attach a concrete failing input.
//!   replayer frame-search            bounded search for a C07 / C08 counterexample (parser level)
//!   replayer frame-one <hex> <off>   run check+parse on one input (child process: survives aborts)
use std::io::Cursor;
use std::panic;

use bitcask::net::frame::{Error, Frame};

fn hex(b: &[u8]) -> String { b.iter().map(|x| format!("{:02x}", x)).collect() }
/// JSON string literal (Rust's {:?} escapes are not JSON)
pub fn js(s: &str) -> String {
    let mut o = String::from("\"");
    for c in s.chars() {
        match c {
            '"' => o.push_str("\\\""), '\\' => o.push_str("\\\\"), '\n' => o.push_str("\\n"), '\r' => o.push_str("\\r"), '\t' => o.push_str("\\t"),
            c if (c as u32) < 0x20 || (c as u32) > 0x7e => o.push_str(&format!("\\u{:04x}", (c as u32).min(0xffff))),
            c => o.push(c),
        }
    }
    o.push('"');
    o
}
/// VERIF_PROP=<id>: only oracles whose finding would contradict that property are evaluated (so that a finding for
/// another property does not end the search early); unset: every oracle
pub fn want(props: &str) -> bool {
    match std::env::var("VERIF_PROP") { Ok(p) if !p.is_empty() => props.split(',').any(|x| x.trim() == p), _ => true }
}
fn unhex(s: &str) -> Vec<u8> { (0..s.len() / 2).map(|i| u8::from_str_radix(&s[2 * i..2 * i + 2], 16).unwrap()).collect() }

#[derive(Debug)]
enum Out { Frame(Frame, usize), Incomplete, Err(String), Panic(String) }

fn run_parse(d: &[u8], off: usize) -> Out {
    let r = panic::catch_unwind(|| {
        let mut c = Cursor::new(d);
        c.set_position(off as u64);
        let r = Frame::parse(&mut c);
        (r, c.position() as usize)
    });
    match r {
        Ok((Ok(f), p)) => Out::Frame(f, p - off),
        Ok((Err(Error::Incomplete), _)) => Out::Incomplete,
        Ok((Err(e), _)) => Out::Err(format!("{:?}", e)),
        Err(p) => Out::Panic(p.downcast_ref::<String>().cloned().or_else(|| p.downcast_ref::<&str>().map(|s| s.to_string())).unwrap_or_default()),
    }
}
fn run_check(d: &[u8], off: usize) -> Out {
    let r = panic::catch_unwind(|| {
        let mut c = Cursor::new(d);
        c.set_position(off as u64);
        let r = Frame::check(&mut c);
        (r, c.position() as usize)
    });
    match r {
        Ok((Ok(()), p)) => Out::Frame(Frame::Null, p - off),
        Ok((Err(Error::Incomplete), _)) => Out::Incomplete,
        Ok((Err(e), _)) => Out::Err(format!("{:?}", e)),
        Err(p) => Out::Panic(p.downcast_ref::<String>().cloned().or_else(|| p.downcast_ref::<&str>().map(|s| s.to_string())).unwrap_or_default()),
    }
}

/// independent reading of a frame starting at `off`: Some((frame, len)) only where the text is
/// unambiguous ([+-]?digits for numbers); used to cross-check values the parser accepted.
fn int_text_value(t: &[u8]) -> Option<i128> {
    let (neg, body) = match t.first() { Some(b'-') => (true, &t[1..]), Some(b'+') => (false, &t[1..]), _ => (false, t) };
    if body.is_empty() || !body.iter().all(|b| b.is_ascii_digit()) || body.len() > 30 { return None; }
    let mut v: i128 = 0;
    for b in body { v = v * 10 + (*b - b'0') as i128; }
    Some(if neg { -v } else { v })
}

fn report(kind: &str, d: &[u8], off: usize, observed: String, expected: &str) -> ! {
    let props = match kind {
        "parse-panic" | "check-panic" | "length-disagreement" | "integer-value" | "bulk-length" | "array-length" => "C07,C10",
        "roundtrip" | "roundtrip-check" | "prefix-parse" | "prefix-check" => "C08",
        _ => "C08,C06",
    };
    println!("{{\"found\": true, \"kind\": \"{}\", \"props\": \"{}\", \"input_hex\": \"{}\", \"offset\": {}, \"observed\": {:?}, \"expected\": {:?}}}",
             kind, props, hex(d), off, observed, expected);
    std::process::exit(0)
}

/// all oracle checks of C07 (and the parser half of C08) on one input
fn judge(d: &[u8], off: usize) {
    let p = run_parse(d, off);
    let c = run_check(d, off);
    if let Out::Panic(m) = &p { report("parse-panic", d, off, m.clone(), "a frame, Incomplete or an error"); }
    if let Out::Panic(m) = &c { report("check-panic", d, off, m.clone(), "Ok, Incomplete or an error"); }
    if let (Out::Frame(_, n), Out::Frame(_, m)) = (&c, &p) {
        if n != m { report("length-disagreement", d, off, format!("check accepted {} bytes, parse consumed {}", n, m), "equal lengths"); }
    }
    if let Out::Frame(f, n) = &p { value_check(d, off, f, *n); }
}

fn value_check(d: &[u8], off: usize, f: &Frame, n: usize) {
    // every number the parser accepted must have exactly the value written
    let line_end = |s: usize| (s..d.len()).find(|&i| d[i] == b'\r');
    match f {
        Frame::Integer(v) => {
            let e = line_end(off + 1).unwrap_or(d.len());
            match int_text_value(&d[off + 1..e]) {
                Some(x) if x == *v as i128 => {}
                other => report("integer-value", d, off, format!("parsed {} from {:?}", v, String::from_utf8_lossy(&d[off + 1..e])), &format!("{:?}", other)),
            }
        }
        Frame::BulkString(b) => {
            let e = line_end(off + 1).unwrap_or(d.len());
            match int_text_value(&d[off + 1..e]) {
                Some(x) if x == b.len() as i128 && e + 2 + b.len() + 2 == off + n && &d[e + 2..e + 2 + b.len()] == &b[..] => {}
                other => report("bulk-length", d, off, format!("bulk of {} bytes, consumed {}", b.len(), n), &format!("{:?}", other)),
            }
        }
        Frame::Array(items) => {
            let e = line_end(off + 1).unwrap_or(d.len());
            match int_text_value(&d[off + 1..e]) {
                Some(x) if x == items.len() as i128 => {}
                other => report("array-length", d, off, format!("array of {} items", items.len()), &format!("{:?}", other)),
            }
        }
        _ => {}
    }
}

fn enc(f: &Frame, out: &mut Vec<u8>) {
    match f {
        Frame::SimpleString(s) => { out.push(b'+'); out.extend(s.as_bytes()); out.extend(b"\r\n"); }
        Frame::Error(s) => { out.push(b'-'); out.extend(s.as_bytes()); out.extend(b"\r\n"); }
        Frame::Integer(i) => { out.push(b':'); out.extend(i.to_string().as_bytes()); out.extend(b"\r\n"); }
        Frame::BulkString(b) => { out.push(b'$'); out.extend(b.len().to_string().as_bytes()); out.extend(b"\r\n"); out.extend(&b[..]); out.extend(b"\r\n"); }
        Frame::Null => out.extend(b"$-1\r\n"),
        Frame::Array(xs) => { out.push(b'*'); out.extend(xs.len().to_string().as_bytes()); out.extend(b"\r\n"); for x in xs { enc(x, out); } }
    }
}

fn roundtrip(f: Frame, pad: usize) {
    let mut d = vec![b'x'; pad];
    enc(&f, &mut d);
    let n = d.len() - pad;
    match run_parse(&d, pad) {
        Out::Frame(g, m) if g == f && m == n => {}
        o => report("roundtrip", &d, pad, format!("{:?}", o), "the encoded frame, whole length"),
    }
    match run_check(&d, pad) {
        Out::Frame(_, m) if m == n => {}
        o => report("roundtrip-check", &d, pad, format!("{:?}", o), "Ok, whole length"),
    }
    for k in 0..n {
        let t = &d[..pad + k];
        match run_parse(t, pad) { Out::Incomplete => {}, o => report("prefix-parse", t, pad, format!("{:?}", o), "Incomplete") }
        match run_check(t, pad) { Out::Incomplete => {}, o => report("prefix-check", t, pad, format!("{:?}", o), "Incomplete") }
    }
}

fn frame_search() {
    panic::set_hook(Box::new(|_| {}));
    // 1. curated seeds: boundary numbers at many offsets, absurd lengths, truncated signs
    let nums: Vec<String> = vec![
        "0", "-0", "+0", "7", "-7", "18", "9223372036854775807", "9223372036854775808", "-9223372036854775808",
        "-9223372036854775809", "99999999999999999999", "-99999999999999999999", "18446744073709551616",
        "18446744073709551617", "36893488147419103233", "000000000000000000005", "123456789012345678",
        "1234567890123456789", "12345678901234567890", "-", "+", "", "1a", "--1",
    ].into_iter().map(String::from).collect();
    for pad in [0usize, 1, 2, 5, 16, 17, 18, 19, 20, 31, 40, 100] {
        for n in &nums {
            for ty in [b':', b'$', b'*'] {
                for tail in ["\r\n", "\r", "", "\r\nabc\r\n", "\r\n:1\r\n"] {
                    let mut d = vec![b'x'; pad];
                    d.push(ty);
                    d.extend(n.as_bytes());
                    d.extend(tail.as_bytes());
                    judge(&d, pad);
                }
            }
        }
    }
    // 2. exhaustive small strings over the protocol alphabet
    let alpha = b"+-:$*019\r\nx";
    for len in 0..=6usize {
        let mut idx = vec![0usize; len];
        loop {
            let d: Vec<u8> = idx.iter().map(|&i| alpha[i]).collect();
            judge(&d, 0);
            if len > 0 { let mut e = vec![b'*', b'2', b'\r', b'\n', b':', b'1', b'\r', b'\n']; let off = e.len(); e.extend(&d); judge(&e, off); }
            let mut k = 0;
            while k < len { idx[k] += 1; if idx[k] < alpha.len() { break; } idx[k] = 0; k += 1; }
            if k == len { break; }
        }
    }
    // 3. round trips and strict prefixes (C08, parser half)
    let b = |s: &[u8]| Frame::BulkString(bytes::Bytes::copy_from_slice(s));
    let frames = || vec![
        Frame::SimpleString("OK".into()), Frame::SimpleString("".into()), Frame::Error("ERR x".into()),
        Frame::Integer(0), Frame::Integer(-1), Frame::Integer(i64::MAX), Frame::Integer(i64::MIN), Frame::Integer(1234567890123456789),
        b(b""), b(b"a"), b(b"\r\n\0x"), b(&[7u8; 300]), Frame::Null,
        Frame::Array(vec![]), Frame::Array(vec![b(b"GET"), b(b"k")]), Frame::Array(vec![Frame::Integer(5), Frame::Null, Frame::SimpleString("s".into())]),
    ];
    for pad in [0usize, 1, 17, 18, 19, 25] { for f in frames() { roundtrip(f, pad); } }
    println!("{{\"found\": false, \"searched\": \"curated numbers x offsets, all strings over an 11-byte alphabet up to length 6 (bare and after an array prefix), round trips and all strict prefixes of 16 frames at 6 offsets\"}}");
}

fn frame_one(h: &str, off: usize) {
    let d = unhex(h);
    let p = run_parse(&d, off);
    let c = run_check(&d, off);
    println!("parse={:?} check={:?}", short(&p), short(&c));
}
fn short(o: &Out) -> String { let s = format!("{:?}", o); if s.len() > 200 { s[..200].to_string() } else { s } }

/// connection level (C08): write frames with the real Connection, deliver the bytes in chunks of a given
/// size through an in-memory pipe, read them back with the real Connection.
fn conn_search() {
    use bitcask::net::connection::Connection;
    use tokio::io::AsyncWriteExt;
    let rt = tokio::runtime::Builder::new_current_thread().enable_all().build().unwrap();
    let b = |s: &[u8]| Frame::BulkString(bytes::Bytes::copy_from_slice(s));
    let frames = || vec![
        Frame::SimpleString("OK".into()), Frame::Error("ERR something".into()), Frame::Integer(0), Frame::Integer(-42),
        Frame::Integer(i64::MAX), Frame::Integer(i64::MIN), b(b""), b(b"hello"), b(b"\r\n\0\r\n"), b(&[9u8; 70]), Frame::Null,
        Frame::Array(vec![]), Frame::Array(vec![b(b"SET"), b(b"k"), b(b"v\r\nv")]), Frame::Array(vec![Frame::Integer(1), Frame::Null, Frame::SimpleString("x".into())]),
        Frame::Array((0..12).map(|i| if i % 3 == 0 { b(b"") } else { Frame::Integer(-(i as i64) * 1000) }).collect()),      // multi-digit array length, empty bulks inside
        b(&vec![0xabu8; 70000]), Frame::Error("".into()), Frame::SimpleString("".into()), Frame::Integer(-1), Frame::Integer(10), Frame::Integer(-9223372036854775807),
    ];
    rt.block_on(async {
        // encode with the real writer
        let mut wire = std::io::Cursor::new(Vec::new());
        let mut encs: Vec<Vec<u8>> = Vec::new();
        {
            let mut w = Connection::new(&mut wire);
            let mut last = 0usize;
            for f in frames() {
                w.write_frame(&f).await.unwrap();
                drop(w);
                let cur = wire.get_ref().len();
                encs.push(wire.get_ref()[last..cur].to_vec());
                last = cur;
                w = Connection::new(&mut wire);
                // Connection::new over &mut Cursor appends at the cursor position
            }
        }
        let all: Vec<u8> = wire.get_ref().clone();
        // the same frames through a stream that accepts only a few bytes per write call (a socket with a full buffer): what arrives
        // must still be the whole encoding
        for cap in [1usize, 7, 256] {
            let (tx, mut rx) = tokio::io::duplex(cap);
            let collector = tokio::spawn(async move { use tokio::io::AsyncReadExt; let mut v = Vec::new(); let _ = rx.read_to_end(&mut v).await; v });
            {
                let mut w = Connection::new(tx);
                for f in frames() { w.write_frame(&f).await.unwrap(); }
            }
            let got = collector.await.unwrap();
            if got != all {
                let at = got.iter().zip(all.iter()).position(|(a, b)| a != b).unwrap_or(got.len().min(all.len()));
                report("throttled-write", &all[..all.len().min(64)], 0, format!("through a stream that takes at most {} bytes per write: {} bytes arrived, first difference at byte {}", cap, got.len(), at), &format!("the {} bytes of the encodings", all.len()));
            }
        }
        // each encoding parses back (writer vs independent encoder)
        for (f, e) in frames().into_iter().zip(encs.iter()) {
            let mut x = Vec::new();
            enc(&f, &mut x);
            if &x != e { report("writer-encoding", e, 0, format!("wrote {:?}", String::from_utf8_lossy(e)), &format!("{:?}", String::from_utf8_lossy(&x))); }
        }
        for chunk in [1usize, 2, 3, 5, 7, 64, 100000] {
            for cut in [all.len(), all.len() - 1, all.len() - 3, 1] {
                let data = all[..cut].to_vec();
                let (mut tx, rx) = tokio::io::duplex(1 << 20);
                let d2 = data.clone();
                let feeder = tokio::spawn(async move {
                    for c in d2.chunks(chunk) { tx.write_all(c).await.unwrap(); tx.flush().await.unwrap(); tokio::task::yield_now().await; }
                    drop(tx);
                });
                let mut r = Connection::new(rx);
                let mut got = Vec::new();
                let end = loop {
                    match r.read_frame().await { Ok(Some(f)) => got.push(f), Ok(None) => break Ok(()), Err(e) => break Err(format!("{:?}", e)) }
                };
                feeder.await.unwrap();
                let want = frames();
                let complete = cut == all.len();
                let nfull = { let mut n = 0; let mut acc = 0; for e in &encs { if acc + e.len() <= cut { acc += e.len(); n += 1; } else { break; } } n };
                if got.len() != nfull || got.iter().zip(want.iter()).any(|(a, b)| a != b) {
                    report("chunked-read", &data, 0, format!("chunk size {}: decoded {} frames: {:?}", chunk, got.len(), got.iter().take(3).collect::<Vec<_>>()), &format!("the first {} written frames", nfull));
                }
                let at_boundary = { let mut acc = 0; let mut ok = false; for e in &encs { acc += e.len(); if acc == cut { ok = true; } } ok };
                if (complete || at_boundary) && end.is_err() { report("clean-end", &data, 0, format!("chunk size {}: {:?}", chunk, end), "Ok(None) at end of stream"); }
                if !complete && !at_boundary && end.is_ok() { report("truncated-stream", &data, 0, format!("chunk size {}: clean end after {} frames", chunk, got.len()), "an error: the stream ended inside a frame"); }
            }
        }
    });
    println!("{{\"found\": false, \"searched\": \"21 frames (incl. a 12-element array, a 70000-byte bulk, empty strings, extreme integers) written by the real Connection and read back through a pipe in chunks of 1,2,3,5,7,64 bytes and all at once; stream complete and cut at 3 places\"}}");
}

/// T6 stand-in (bounded): Connection::write_decimal, reached through write_frame(Integer(v)), against an independent
/// decimal conversion; every power of ten and its neighbours, every power of two and its neighbours, both signs, and
/// `n` pseudo-random values.
fn decimal_search(n: u64) {
    use bitcask::net::connection::Connection;
    fn dec(v: i64) -> Vec<u8> {
        let mut m: u128 = if v < 0 { (-(v as i128)) as u128 } else { v as u128 };
        let mut d = Vec::new();
        if m == 0 { d.push(b'0'); }
        while m > 0 { d.push(b'0' + (m % 10) as u8); m /= 10; }
        if v < 0 { d.push(b'-'); }
        d.reverse();
        d
    }
    let mut vals: Vec<i64> = vec![0, 1, -1, i64::MAX, i64::MIN, i64::MAX - 1, i64::MIN + 1];
    let mut p: i128 = 1;
    while p <= i64::MAX as i128 { for d in [-1i128, 0, 1] { for sg in [1i128, -1] { let x = sg * (p + d); if x >= i64::MIN as i128 && x <= i64::MAX as i128 { vals.push(x as i64); } } } p *= 10; }
    for sh in 0..63 { let q = 1i64 << sh; vals.push(q); vals.push(q - 1); vals.push(-q); vals.push(-q - 1); vals.push(q.wrapping_add(1)); }
    let mut x: u64 = 0x9E3779B97F4A7C15;
    for i in 0..n { x ^= x << 13; x ^= x >> 7; x ^= x << 17; let v = x as i64; vals.push(if i % 3 == 0 { v >> (x % 64) } else { v }); }
    let rt = tokio::runtime::Builder::new_current_thread().enable_all().build().unwrap();
    let total = vals.len();
    rt.block_on(async {
        for chunk in vals.chunks(4096) {
            let mut wire = std::io::Cursor::new(Vec::new());
            {
                let mut w = Connection::new(&mut wire);
                for v in chunk {
                    if let Err(e) = w.write_frame(&Frame::Integer(*v)).await {
                        println!("{{\"found\": true, \"kind\": \"decimal\", \"props\": \"C08,C06\", \"value\": {}, \"observed\": {}, \"expected\": {}}}", v, js(&format!("write_frame(Integer({})) returned Err({})", v, e)), js("the frame is written"));
                        std::process::exit(0);
                    }
                }
            }
            let mut want = Vec::new();
            for v in chunk { want.push(b':'); want.extend(dec(*v)); want.extend(b"\r\n"); }
            if wire.get_ref() != &want {
                // find the first value that differs
                let mut off = 0;
                for v in chunk { let mut e = vec![b':']; e.extend(dec(*v)); e.extend(b"\r\n"); let got = &wire.get_ref()[off.min(wire.get_ref().len())..(off + e.len()).min(wire.get_ref().len())];
                    if got != &e[..] { println!("{{\"found\": true, \"kind\": \"decimal\", \"props\": \"C08,C06\", \"value\": {}, \"observed\": {:?}, \"expected\": {:?}}}", v, String::from_utf8_lossy(got), String::from_utf8_lossy(&e)); std::process::exit(0); }
                    off += e.len(); }
            }
        }
    });
    println!("{{\"found\": false, \"evaluations\": {}, \"searched\": \"write_frame(Integer(v)) for {} values (powers of ten and two with neighbours, extremes, xorshift pseudo-random) against an independent decimal conversion\"}}", total, total);
}

/// C06 end to end (bounded): the real Server over loopback TCP on the real Bitcask engine; pipelined SET/GET/DEL
/// requests with binary values, delivered all at once, byte by byte and in chunks; the replies must be exactly the
/// model's, one per request, in order, whatever the segmentation.
fn server_search(seed: u64) {
    use bitcask::storage::bitcask::{Config as SConf, SyncStrategy};
    use std::collections::BTreeMap;
    use tokio::io::{AsyncReadExt, AsyncWriteExt};
    fn bulk(out: &mut Vec<u8>, b: &[u8]) { out.extend(format!("${}\r\n", b.len()).as_bytes()); out.extend(b); out.extend(b"\r\n"); }
    fn req(parts: &[&[u8]]) -> Vec<u8> { let mut o = format!("*{}\r\n", parts.len()).into_bytes(); for p in parts { bulk(&mut o, p); } o }
    let rt = tokio::runtime::Builder::new_multi_thread().worker_threads(2).enable_all().build().unwrap();
    let mut x = seed.wrapping_mul(6364136223846793005).wrapping_add(1442695040888963407);
    let mut next = move |n: u64| { x = x.wrapping_mul(6364136223846793005).wrapping_add(1442695040888963407); (x >> 33) % n };
    let values: Vec<Vec<u8>> = vec![b"v".to_vec(), b"".to_vec(), b"\r\n".to_vec(), b"a\r\nb\0c".to_vec(), vec![0xff, 0xfe, 0x00], b"$5\r\nhello\r\n".to_vec(), vec![b'x'; 5000], b"+OK\r\n".to_vec(), b"-1".to_vec()];
    let keys: Vec<&[u8]> = vec![b"k0", b"k1", b"k2", b"\xc3\xa9t\xc3\xa9", b""];
    let mut total_reqs = 0usize;
    for round in 0..6u64 {
        let dir = tempfile::tempdir().unwrap();
        let mut c = SConf::default();
        c.path(dir.path()).concurrency(2).max_file_size(if round % 2 == 0 { 200 } else { 1 << 20 }).sync(SyncStrategy::None).merge_check_interval_ms(1_000_000_000).merge_check_jitter(0.0);
        let kv = c.open().unwrap();
        let handle = kv.get_handle();
        let port = { let l = std::net::TcpListener::bind("127.0.0.1:0").unwrap(); l.local_addr().unwrap().port() };
        let (stop_tx, stop_rx) = tokio::sync::oneshot::channel::<()>();
        let mut nc = bitcask::net::Config::default();
        nc.host = "127.0.0.1".parse().unwrap();
        nc.port = port;
        // requests and the model's replies
        let mut model: BTreeMap<Vec<u8>, Vec<u8>> = BTreeMap::new();
        let mut wire = Vec::new();
        let mut want = Vec::new();
        let mut hist = Vec::new();
        let n = 20 + next(40);
        for _ in 0..n {
            let k = keys[next(keys.len() as u64) as usize];
            match next(10) {
                0..=3 => { let v = &values[next(values.len() as u64) as usize]; wire.extend(req(&[b"SET", k, v])); model.insert(k.to_vec(), v.clone()); want.extend(b"+OK\r\n"); hist.push(format!("SET {} <{} bytes>", String::from_utf8_lossy(k), v.len())); }
                4..=6 => { wire.extend(req(&[b"GET", k])); match model.get(k) { Some(v) => bulk(&mut want, v), None => want.extend(b"$-1\r\n") } hist.push(format!("GET {}", String::from_utf8_lossy(k))); }
                _ => { let m = 1 + next(3) as usize; let mut parts: Vec<&[u8]> = vec![b"DEL"]; let mut cnt = 0; let mut names = Vec::new();
                    for _ in 0..m { let kk = keys[next(keys.len() as u64) as usize]; parts.push(kk); names.push(String::from_utf8_lossy(kk).to_string()); if model.remove(kk).is_some() { cnt += 1; } }
                    wire.extend(req(&parts)); want.extend(format!(":{}\r\n", cnt).as_bytes()); hist.push(format!("DEL {}", names.join(" "))); }
            }
        }
        total_reqs += n as usize;
        let chunk = [usize::MAX, 1, 7, 3, 64, 1000][round as usize % 6];
        let got: Result<Vec<u8>, String> = rt.block_on(async {
            let server = nc.async_server(handle, async { let _ = stop_rx.await; }).await.map_err(|e| format!("server start: {}", e))?;
            let srv = tokio::spawn(server.run());
            let mut s = tokio::net::TcpStream::connect(("127.0.0.1", port)).await.map_err(|e| format!("connect: {}", e))?;
            s.set_nodelay(true).ok();
            let (mut rd, mut wr) = s.into_split();
            let w2 = wire.clone();
            let writer = tokio::spawn(async move {
                if chunk == usize::MAX { wr.write_all(&w2).await.ok(); } else { for c in w2.chunks(chunk) { wr.write_all(c).await.ok(); wr.flush().await.ok(); if chunk < 8 { tokio::task::yield_now().await; } } }
                wr
            });
            let mut got = Vec::new();
            let mut buf = vec![0u8; 65536];
            let deadline = tokio::time::Instant::now() + std::time::Duration::from_secs(5);
            while got.len() < want.len() {
                match tokio::time::timeout_at(deadline, rd.read(&mut buf)).await {
                    Ok(Ok(0)) => break,
                    Ok(Ok(k)) => got.extend(&buf[..k]),
                    Ok(Err(e)) => return Err(format!("read: {}", e)),
                    Err(_) => break,
                }
            }
            // nothing more may follow: wait briefly for surplus bytes
            if let Ok(Ok(k)) = tokio::time::timeout(std::time::Duration::from_millis(50), rd.read(&mut buf)).await { got.extend(&buf[..k]); }
            let _wr = writer.await;
            let _ = stop_tx.send(());
            let _ = tokio::time::timeout(std::time::Duration::from_secs(5), srv).await;
            Ok(got)
        });
        let show = |b: &[u8]| { let s = String::from_utf8_lossy(&b[..b.len().min(300)]).to_string(); s };
        match got {
            Err(e) => { println!("{{\"found\": false, \"error\": {:?}}}", e); return; }
            Ok(g) if g != want => {
                // first differing reply
                let mut i = 0; while i < g.len() && i < want.len() && g[i] == want[i] { i += 1; }
                println!("{{\"found\": true, \"kind\": \"server-replies\", \"props\": \"C06\", \"seed\": {}, \"round\": {}, \"chunk\": {}, \"history\": {}, \"observed\": {}, \"expected\": {}}}",
                         seed, round, if chunk == usize::MAX { 0 } else { chunk }, js(&hist.join("; ")), js(&format!("{} reply bytes; first difference at byte {}: ...{}", g.len(), i, show(&g[i.saturating_sub(20)..]))), js(&format!("{} reply bytes: ...{}", want.len(), show(&want[i.saturating_sub(20)..]))));
                std::process::exit(0);
            }
            Ok(_) => {}
        }
        drop(kv);
    }
    println!("{{\"found\": false, \"evaluations\": {}, \"searched\": \"{} pipelined SET/GET/DEL requests (binary values incl. CRLF, empty, 5000 bytes; 4 keys) against the real Server over loopback TCP on the real Bitcask engine, 6 connections with segmentations all-at-once/1/7/3/64/1000 bytes; replies compared byte for byte with a map model\"}}", total_reqs, total_reqs);
}
/// C10 end to end (bounded): hostile byte streams on their own connections while a well-behaved client keeps
/// working; the server must keep running, the good client must get exactly the model's replies, and the store must
/// change only through the good client's commands.
fn server_hostile() {
    use bitcask::storage::bitcask::{Config as SConf, SyncStrategy};
    use tokio::io::{AsyncReadExt, AsyncWriteExt};
    fn bulk(out: &mut Vec<u8>, b: &[u8]) { out.extend(format!("${}\r\n", b.len()).as_bytes()); out.extend(b); out.extend(b"\r\n"); }
    fn req(parts: &[&[u8]]) -> Vec<u8> { let mut o = format!("*{}\r\n", parts.len()).into_bytes(); for p in parts { bulk(&mut o, p); } o }
    let rt = tokio::runtime::Builder::new_multi_thread().worker_threads(2).enable_all().build().unwrap();
    let dir = tempfile::tempdir().unwrap();
    let mut c = SConf::default();
    c.path(dir.path()).concurrency(2).max_file_size(1 << 20).sync(SyncStrategy::None).merge_check_interval_ms(1_000_000_000).merge_check_jitter(0.0);
    let kv = c.open().unwrap();
    let handle = kv.get_handle();
    let port = { let l = std::net::TcpListener::bind("127.0.0.1:0").unwrap(); l.local_addr().unwrap().port() };
    let (stop_tx, stop_rx) = tokio::sync::oneshot::channel::<()>();
    let mut nc = bitcask::net::Config::default();
    nc.host = "127.0.0.1".parse().unwrap();
    nc.port = port;
    let mut hostile: Vec<(String, Vec<u8>)> = vec![
        ("garbage".into(), b"\x00\xff\x13garbage\r\n\r\n%%%".to_vec()),
        ("unknown command".into(), req(&[b"FLUSHALL"])),
        ("lower-case command".into(), req(&[b"set", b"evil", b"1"])),
        ("wrong arity SET".into(), req(&[b"SET", b"evil"])),
        ("wrong arity GET".into(), req(&[b"GET", b"a", b"b"])),
        ("SET with one surplus argument".into(), req(&[b"SET", b"evil", b"1", b"NX"])),
        ("SET with two surplus arguments".into(), req(&[b"SET", b"evil", b"1", b"EX", b"10"])),
        ("GET with a surplus non-bulk argument".into(), b"*3\r\n$3\r\nGET\r\n$4\r\nevil\r\n:1\r\n".to_vec()),
        ("SET whose value is an integer frame".into(), b"*3\r\n$3\r\nSET\r\n$4\r\nevil\r\n:1\r\n".to_vec()),
        ("DEL with a non-bulk key".into(), b"*3\r\n$3\r\nDEL\r\n$4\r\nevil\r\n+x\r\n".to_vec()),
        ("empty command name".into(), req(&[b"", b"evil", b"1"])),
        ("empty array".into(), b"*0\r\n".to_vec()),
        ("DEL without keys".into(), req(&[b"DEL"])),
        ("non-UTF-8 key".into(), req(&[b"SET", b"\xff\xfe", b"1"])),
        ("truncated frame".into(), b"*3\r\n$3\r\nSET\r\n$4\r\nevil\r\n$100\r\nabc".to_vec()),
        ("absurd array length".into(), b"*9223372036854775807\r\n".to_vec()),
        ("absurd bulk length".into(), b"*1\r\n$9223372036854775807\r\nx".to_vec()),
        ("negative length".into(), b"*-5\r\n$-7\r\n".to_vec()),
        ("number overflow".into(), b"*99999999999999999999999999\r\n".to_vec()),
        ("nested non-bulk".into(), b"*2\r\n*1\r\n$3\r\nSET\r\n:5\r\n".to_vec()),
        ("integer frame".into(), b":12\r\n+OK\r\n-ERR\r\n$-1\r\n".to_vec()),
        ("SET smuggled after garbage".into(), { let mut v = b"?\r\n".to_vec(); v.extend(req(&[b"SET", b"evil", b"1"])); v }),
    ];
    { let mut deep = Vec::new(); for _ in 0..100000 { deep.extend(b"*1\r\n"); } deep.extend(b"$4\r\nevil\r\n"); hostile.push(("100000 nested arrays".into(), deep)); }
    let result: Result<(), (String, String, String)> = rt.block_on(async {
        let server = nc.async_server(handle, async { let _ = stop_rx.await; }).await.map_err(|e| ("setup".to_string(), format!("server start: {}", e), "".to_string()))?;
        let srv = tokio::spawn(server.run());
        let mut good = tokio::net::TcpStream::connect(("127.0.0.1", port)).await.map_err(|e| ("setup".to_string(), format!("connect: {}", e), "".to_string()))?;
        let mut buf = vec![0u8; 4096];
        for (i, (name, payload)) in hostile.iter().enumerate() {
            // the hostile connection
            if let Ok(mut h) = tokio::net::TcpStream::connect(("127.0.0.1", port)).await {
                let _ = h.write_all(payload).await; let _ = h.flush().await;
                // none of these streams begins with a well-formed SET / GET / DEL: whatever comes back must not be a success reply
                if let Ok(Ok(n)) = tokio::time::timeout(std::time::Duration::from_millis(150), h.read(&mut buf)).await {
                    if n > 0 && (buf[0] == b'+' || buf[0] == b'$' || buf[0] == b':') {
                        return Err((name.clone(), format!("the server answered {:?}", String::from_utf8_lossy(&buf[..n.min(40)])), "an error reply or a closed connection: the request is not a well-formed SET / GET / DEL".into()));
                    }
                }
                drop(h);
            } else { return Err((name.clone(), "the server no longer accepts connections".into(), "connections are accepted".into())); }
            // the good client: one SET and one GET, checked
            let k = format!("good{}", i); let v = format!("v{}", i);
            let mut w = req(&[b"SET", k.as_bytes(), v.as_bytes()]); w.extend(req(&[b"GET", k.as_bytes()])); w.extend(req(&[b"GET", b"evil"])); w.extend(req(&[b"GET", b"\xff\xfe"]));
            let mut want = b"+OK\r\n".to_vec(); bulk(&mut want, v.as_bytes()); want.extend(b"$-1\r\n");
            good.write_all(&w).await.map_err(|e| (name.clone(), format!("the good connection cannot write: {}", e), "the good connection keeps working".to_string()))?;
            let mut got = Vec::new();
            let deadline = tokio::time::Instant::now() + std::time::Duration::from_secs(5);
            // the 4th request has a non-UTF-8 key: the good connection itself would be closed by it, so it is not sent
            let w_len = want.len();
            let _ = w_len;
            while got.len() < want.len() {
                match tokio::time::timeout_at(deadline, good.read(&mut buf)).await { Ok(Ok(0)) => break, Ok(Ok(n)) => got.extend(&buf[..n]), _ => break }
            }
            // the 4th request names a non-UTF-8 key: it must be refused (the connection is closed), never answered
            if let Ok(Ok(n)) = tokio::time::timeout(std::time::Duration::from_millis(200), good.read(&mut buf)).await { got.extend(&buf[..n]); }
            if got != want {
                return Err((name.clone(), format!("after the hostile connection the good client read {:?}", String::from_utf8_lossy(&got)), format!("{:?}", String::from_utf8_lossy(&want))));
            }
            // the last request (non-UTF-8 key on the good connection) closes the good connection: reconnect
            good = tokio::net::TcpStream::connect(("127.0.0.1", port)).await.map_err(|e| (name.clone(), format!("reconnect failed: {}", e), "connections are accepted".to_string()))?;
        }
        let _ = stop_tx.send(());
        let _ = tokio::time::timeout(std::time::Duration::from_secs(5), srv).await;
        Ok(())
    });
    match result {
        Err((name, obs, exp)) if name != "setup" => { println!("{{\"found\": true, \"kind\": \"hostile-input\", \"props\": \"C10\", \"input\": {}, \"observed\": {}, \"expected\": {}}}", js(&name), js(&obs), js(&exp)); }
        Err((_, obs, _)) => { println!("{{\"found\": false, \"error\": {}}}", js(&obs)); }
        Ok(()) => { println!("{{\"found\": false, \"evaluations\": {}, \"searched\": \"{} hostile byte streams, each on its own connection, interleaved with a well-behaved client whose replies were checked after every one; the key `evil` must never appear\"}}", hostile.len(), hostile.len()); }
    }
}
/// C16, clauses 2 and 3 (bounded): the shutdown signal fires while a client is in the middle of a pipelined stream; what the client
/// received must be complete replies (a prefix of the model's replies) followed by end-of-stream, and every SET whose +OK arrived
/// must be in the store afterwards.
fn server_shutdown(seed: u64) {
    use bitcask::storage::bitcask::{Config as SConf, SyncStrategy};
    use bitcask::storage::KeyValueStorage;
    use tokio::io::{AsyncReadExt, AsyncWriteExt};
    fn bulk(out: &mut Vec<u8>, b: &[u8]) { out.extend(format!("${}\r\n", b.len()).as_bytes()); out.extend(b); out.extend(b"\r\n"); }
    fn req(parts: &[&[u8]]) -> Vec<u8> { let mut o = format!("*{}\r\n", parts.len()).into_bytes(); for p in parts { bulk(&mut o, p); } o }
    let rt = tokio::runtime::Builder::new_multi_thread().worker_threads(2).enable_all().build().unwrap();
    let mut x = seed.wrapping_mul(6364136223846793005).wrapping_add(1442695040888963407);
    let mut next = move |n: u64| { x = x.wrapping_mul(6364136223846793005).wrapping_add(1442695040888963407); (x >> 33) % n };
    let mut rounds = 0;
    // variant A (first): one large value read back by pipelined GETs while the client reads slowly, so that the signal
    // arrives while the handler is suspended inside write_frame (the socket buffers are full)
    for round in 0..2u64 {
        rounds += 1;
        let dir = tempfile::tempdir().unwrap();
        let mut c = SConf::default();
        c.path(dir.path()).concurrency(2).max_file_size(1 << 28).sync(SyncStrategy::None).merge_check_interval_ms(1_000_000_000).merge_check_jitter(0.0);
        let kv = c.open().unwrap();
        let handle = kv.get_handle();
        let port = { let l = std::net::TcpListener::bind("127.0.0.1:0").unwrap(); l.local_addr().unwrap().port() };
        let (stop_tx, stop_rx) = tokio::sync::oneshot::channel::<()>();
        let mut nc = bitcask::net::Config::default();
        nc.host = "127.0.0.1".parse().unwrap(); nc.port = port;
        let big = vec![b'x'; (12 << 20) + next(1000) as usize];
        let gets = 4usize;
        let mut wire = req(&[b"SET", b"big", &big]);
        for _ in 0..gets { wire.extend(req(&[b"GET", b"big"])); }
        let delay_ms = 120 + next(200);
        let reply_len = format!("${}\r\n", big.len()).len() + big.len() + 2;
        let got: Result<Vec<u8>, String> = rt.block_on(async {
            let server = nc.async_server(handle, async { let _ = stop_rx.await; }).await.map_err(|e| format!("server start: {}", e))?;
            let srv = tokio::spawn(server.run());
            let s = tokio::net::TcpStream::connect(("127.0.0.1", port)).await.map_err(|e| format!("connect: {}", e))?;
            let (mut rd, mut wr) = s.into_split();
            let w2 = wire.clone();
            let writer = tokio::spawn(async move { let _ = wr.write_all(&w2).await; let _ = wr.flush().await; wr });
            let mut got = Vec::new();
            let mut buf = vec![0u8; 65536];
            // wait for +OK, then stop reading until after the signal
            while got.len() < 5 { match tokio::time::timeout(std::time::Duration::from_secs(20), rd.read(&mut buf[..5 - got.len()])).await { Ok(Ok(0)) | Ok(Err(_)) => break, Ok(Ok(k)) => got.extend(&buf[..k]), Err(_) => return Err("no reply to SET within 20 s".to_string()) } }
            tokio::time::sleep(std::time::Duration::from_millis(delay_ms)).await;
            let _ = stop_tx.send(());
            tokio::time::sleep(std::time::Duration::from_millis(150)).await;
            loop { match tokio::time::timeout(std::time::Duration::from_secs(20), rd.read(&mut buf)).await { Ok(Ok(0)) => break, Ok(Ok(k)) => got.extend(&buf[..k]), Ok(Err(_)) => break, Err(_) => return Err("the server did not close the connection within 20 s after the shutdown signal".to_string()) } }
            let _ = writer.await;
            let _ = tokio::time::timeout(std::time::Duration::from_secs(10), srv).await;
            Ok(got)
        });
        let hist = format!("seed {} round A{}: SET big <{} bytes>; {} pipelined GET big; the client reads +OK, pauses, the shutdown signal fires after {} ms, then the client drains the stream", seed, round, big.len(), gets, delay_ms);
        match got {
            Err(e) => { println!("{{\"found\": true, \"kind\": \"shutdown\", \"props\": \"C16\", \"history\": {}, \"observed\": {}, \"expected\": {}}}", js(&hist), js(&e), js("the connection ends")); std::process::exit(0); }
            Ok(g) => {
                let ok_prefix = g.len() >= 5 && &g[..5] == b"+OK\r\n";
                let rest = if ok_prefix { g.len() - 5 } else { 0 };
                let whole = rest / reply_len;
                let mut good = ok_prefix && rest % reply_len == 0 && whole <= gets;
                if good { for i in 0..whole { let r = &g[5 + i * reply_len..5 + (i + 1) * reply_len]; let hl = reply_len - big.len() - 2; if r[hl..hl + big.len()] != big[..] || &r[hl + big.len()..] != b"\r\n" { good = false; } } }
                if !good && !g.is_empty() {
                    println!("{{\"found\": true, \"kind\": \"shutdown\", \"props\": \"C16\", \"history\": {}, \"observed\": {}, \"expected\": {}}}", js(&hist), js(&format!("the client received {} bytes = +OK, {} whole GET replies and {} bytes of a torn reply, then end of stream", g.len(), whole, rest - whole * reply_len)), js("only complete replies, then end of stream"));
                    std::process::exit(0);
                }
            }
        }
        drop(kv);
    }
    // variant C: as the server binary does it -- the server runs on a runtime of its own, and the moment Server::run returns the
    // store is closed and that runtime is dropped (which cancels whatever task is still alive).  run() must therefore return
    // only after every handler has ended: a slow SET in flight at the signal still gets its +OK and is in the store, and a large
    // reply in flight is delivered whole.
    {
        #[derive(Clone)]
        struct Slow(bitcask::storage::bitcask::Handle);
        impl KeyValueStorage for Slow {
            type Error = bitcask::storage::bitcask::Error;
            fn set(&self, key: bytes::Bytes, value: bytes::Bytes) -> Result<(), Self::Error> { std::thread::sleep(std::time::Duration::from_millis(700)); self.0.set(key, value) }
            fn get(&self, key: bytes::Bytes) -> Result<Option<bytes::Bytes>, Self::Error> { self.0.get(key) }
            fn del(&self, key: bytes::Bytes) -> Result<bool, Self::Error> { self.0.del(key) }
        }
        for which in 0..2u64 {
            rounds += 1;
            let dir = tempfile::tempdir().unwrap();
            let dpath = dir.path().to_path_buf();
            let port = { let l = std::net::TcpListener::bind("127.0.0.1:0").unwrap(); l.local_addr().unwrap().port() };
            let (stop_tx, stop_rx) = tokio::sync::oneshot::channel::<()>();
            let (ready_tx, ready_rx) = std::sync::mpsc::channel::<Result<(), String>>();
            let big = vec![b'y'; (10 << 20) + next(1000) as usize];
            let big2 = big.clone();
            let server_thread = std::thread::spawn(move || {
                let srt = tokio::runtime::Builder::new_multi_thread().worker_threads(2).enable_all().build().unwrap();
                let mut c = SConf::default();
                c.path(&dpath).concurrency(2).max_file_size(1 << 28).sync(SyncStrategy::None).merge_check_interval_ms(1_000_000_000).merge_check_jitter(0.0);
                let kv = c.open().unwrap();
                if which == 1 { kv.get_handle().set(bytes::Bytes::from_static(b"big"), bytes::Bytes::from(big2)).unwrap(); }
                let mut nc = bitcask::net::Config::default();
                nc.host = "127.0.0.1".parse().unwrap(); nc.port = port;
                if which == 0 {
                    let handle = Slow(kv.get_handle());
                    srt.block_on(async move {
                        match nc.async_server(handle, async { let _ = stop_rx.await; }).await { Ok(server) => { let _ = ready_tx.send(Ok(())); server.run().await; } Err(e) => { let _ = ready_tx.send(Err(e.to_string())); } } });
                } else {
                    let handle = kv.get_handle();
                    srt.block_on(async move {
                        match nc.async_server(handle, async { let _ = stop_rx.await; }).await { Ok(server) => { let _ = ready_tx.send(Ok(())); server.run().await; } Err(e) => { let _ = ready_tx.send(Err(e.to_string())); } } });
                }
                // what `main` of the server binary does when run() has returned
                drop(kv);
                drop(srt);
            });
            match ready_rx.recv_timeout(std::time::Duration::from_secs(20)) { Ok(Ok(())) => {}, other => { eprintln!("server-shutdown: variant C: server start: {:?}", other); std::process::exit(3); } }
            let reply_len = format!("${}\r\n", big.len()).len() + big.len() + 2;
            let got: Result<Vec<u8>, String> = rt.block_on(async {
                let mut s = tokio::net::TcpStream::connect(("127.0.0.1", port)).await.map_err(|e| format!("connect: {}", e))?;
                let mut got = Vec::new();
                let mut buf = vec![0u8; 65536];
                if which == 0 {
                    s.write_all(&req(&[b"SET", b"slow", b"v"])).await.map_err(|e| e.to_string())?;
                    tokio::time::sleep(std::time::Duration::from_millis(150)).await;      // the SET is being executed (700 ms)
                    let _ = stop_tx.send(());
                } else {
                    s.write_all(&req(&[b"GET", b"big"])).await.map_err(|e| e.to_string())?;
                    // read the beginning of the reply, then pause: the handler is suspended inside write_frame when the signal fires
                    while got.len() < 1000 { match tokio::time::timeout(std::time::Duration::from_secs(20), s.read(&mut buf[..1000 - got.len()])).await { Ok(Ok(0)) | Ok(Err(_)) => break, Ok(Ok(k)) => got.extend(&buf[..k]), Err(_) => return Err("no reply to GET within 20 s".to_string()) } }
                    tokio::time::sleep(std::time::Duration::from_millis(150)).await;
                    let _ = stop_tx.send(());
                    tokio::time::sleep(std::time::Duration::from_millis(300)).await;
                }
                loop { match tokio::time::timeout(std::time::Duration::from_secs(20), s.read(&mut buf)).await { Ok(Ok(0)) => break, Ok(Ok(k)) => got.extend(&buf[..k]), Ok(Err(_)) => break, Err(_) => return Err("the server did not close the connection within 20 s after the signal".to_string()) } }
                Ok(got)
            });
            let joined = { let t0 = std::time::Instant::now(); while !server_thread.is_finished() && t0.elapsed() < std::time::Duration::from_secs(20) { std::thread::sleep(std::time::Duration::from_millis(20)); } server_thread.is_finished() };
            let hist = if which == 0 { format!("seed {} round C0: the server runs as in the binary (store closed and runtime dropped as soon as Server::run returns); SET slow v on an engine whose set takes 700 ms; the shutdown signal fires 150 ms after the request", seed) }
                       else { format!("seed {} round C1: the server runs as in the binary (store closed and runtime dropped as soon as Server::run returns); GET big (a {} byte value); the client reads 1000 bytes, pauses, the shutdown signal fires, 300 ms later the client drains the stream", seed, big.len()) };
            let fail = |obs: String, exp: &str| -> ! { println!("{{\"found\": true, \"kind\": \"shutdown\", \"props\": \"C16\", \"history\": {}, \"observed\": {}, \"expected\": {}}}", js(&hist), js(&obs), js(exp)); std::process::exit(0) };
            if !joined { fail("Server::run had not returned 20 s after the signal although the only client had been answered and closed".into(), "run() returns once every handler has ended"); }
            let _ = server_thread.join();
            match got {
                Err(e) => fail(e, "the connection ends"),
                Ok(g) => {
                    if which == 0 {
                        if g != b"+OK\r\n" { fail(format!("the client received {:?} for the SET that was being executed when the signal fired", String::from_utf8_lossy(&g)), "+OK: a command in flight is finished before Server::run returns"); }
                        std::thread::sleep(std::time::Duration::from_millis(30));
                        let mut c2 = SConf::default();
                        c2.path(dir.path()).concurrency(2).max_file_size(1 << 28).sync(SyncStrategy::None).merge_check_interval_ms(1_000_000_000).merge_check_jitter(0.0);
                        let kv2 = c2.open().unwrap();
                        let v = kv2.get_handle().get(bytes::Bytes::from_static(b"slow")).ok().flatten();
                        if v.as_deref() != Some(&b"v"[..]) { fail(format!("+OK was received but `slow` reads {:?} after the shutdown", v), "the acknowledged SET is in the store"); }
                    } else if g.len() != reply_len || g[g.len() - 2..] != b"\r\n"[..] {
                        fail(format!("the client received {} bytes of a {} byte reply, then end of stream", g.len(), reply_len), "the whole reply: a reply in flight is finished before Server::run returns");
                    }
                }
            }
        }
    }
    // variant B: an engine whose writes are slow and fail for some keys (a wrapper around the real Handle): a SET / DEL whose engine
    // call fails must never be answered with a success reply, whenever the signal fires
    {
        #[derive(Clone)]
        struct Flaky(bitcask::storage::bitcask::Handle);
        impl KeyValueStorage for Flaky {
            type Error = std::io::Error;
            fn set(&self, key: bytes::Bytes, value: bytes::Bytes) -> Result<(), Self::Error> {
                std::thread::sleep(std::time::Duration::from_millis(40));
                if key.starts_with(b"fail") { return Err(std::io::Error::new(std::io::ErrorKind::Other, "injected engine failure")); }
                self.0.set(key, value).map_err(|e| std::io::Error::new(std::io::ErrorKind::Other, e.to_string()))
            }
            fn get(&self, key: bytes::Bytes) -> Result<Option<bytes::Bytes>, Self::Error> { self.0.get(key).map_err(|e| std::io::Error::new(std::io::ErrorKind::Other, e.to_string())) }
            fn del(&self, key: bytes::Bytes) -> Result<bool, Self::Error> {
                std::thread::sleep(std::time::Duration::from_millis(40));
                if key.starts_with(b"fail") { return Err(std::io::Error::new(std::io::ErrorKind::Other, "injected engine failure")); }
                self.0.del(key).map_err(|e| std::io::Error::new(std::io::ErrorKind::Other, e.to_string()))
            }
        }
        for (what, wire) in [("SET fail-1 v", req(&[b"SET", b"fail-1", b"v"])), ("DEL fail-2", req(&[b"DEL", b"fail-2"]))] {
            rounds += 1;
            let dir = tempfile::tempdir().unwrap();
            let mut c = SConf::default();
            c.path(dir.path()).concurrency(2).max_file_size(1 << 20).sync(SyncStrategy::None).merge_check_interval_ms(1_000_000_000).merge_check_jitter(0.0);
            let kv = c.open().unwrap();
            let handle = Flaky(kv.get_handle());
            let port = { let l = std::net::TcpListener::bind("127.0.0.1:0").unwrap(); l.local_addr().unwrap().port() };
            let (stop_tx, stop_rx) = tokio::sync::oneshot::channel::<()>();
            let mut nc = bitcask::net::Config::default();
            nc.host = "127.0.0.1".parse().unwrap(); nc.port = port;
            let delay_ms = 5 + next(60);
            let got: Result<Vec<u8>, String> = rt.block_on(async {
                let server = nc.async_server(handle, async { let _ = stop_rx.await; }).await.map_err(|e| format!("server start: {}", e))?;
                let srv = tokio::spawn(server.run());
                let mut s = tokio::net::TcpStream::connect(("127.0.0.1", port)).await.map_err(|e| format!("connect: {}", e))?;
                s.write_all(&wire).await.map_err(|e| e.to_string())?;
                let stopper = tokio::spawn(async move { tokio::time::sleep(std::time::Duration::from_millis(delay_ms)).await; let _ = stop_tx.send(()); });
                let mut got = Vec::new(); let mut buf = vec![0u8; 256];
                loop { match tokio::time::timeout(std::time::Duration::from_secs(10), s.read(&mut buf)).await { Ok(Ok(0)) | Ok(Err(_)) => break, Ok(Ok(k)) => got.extend(&buf[..k]), Err(_) => break } }
                let _ = stopper.await;
                let _ = tokio::time::timeout(std::time::Duration::from_secs(10), srv).await;
                Ok(got)
            });
            let hist = format!("seed {}: `{}` on an engine whose call takes 40 ms and then FAILS; shutdown signal after {} ms", seed, what, delay_ms);
            if let Ok(g) = got { if g.first() == Some(&b'+') || g.first() == Some(&b':') {
                println!("{{\"found\": true, \"kind\": \"shutdown\", \"props\": \"C16\", \"history\": {}, \"observed\": {}, \"expected\": {}}}", js(&hist), js(&format!("the client received {:?} although the engine call failed", String::from_utf8_lossy(&g))), js("no success reply: the command is not in the store"));
                std::process::exit(0); } }
            drop(kv);
        }
    }
    for round in 0..8u64 {
        rounds += 1;
        let dir = tempfile::tempdir().unwrap();
        let mut c = SConf::default();
        c.path(dir.path()).concurrency(2).max_file_size(1 << 20).sync(SyncStrategy::None).merge_check_interval_ms(1_000_000_000).merge_check_jitter(0.0);
        let kv = c.open().unwrap();
        let handle = kv.get_handle();
        let port = { let l = std::net::TcpListener::bind("127.0.0.1:0").unwrap(); l.local_addr().unwrap().port() };
        let (stop_tx, stop_rx) = tokio::sync::oneshot::channel::<()>();
        let mut nc = bitcask::net::Config::default();
        nc.host = "127.0.0.1".parse().unwrap(); nc.port = port;
        let n = 200usize;
        // request i: SET key<i> v<i>  (reply +OK\r\n, 5 bytes each)
        let mut wire = Vec::new();
        for i in 0..n { wire.extend(req(&[b"SET", format!("key{}", i).as_bytes(), format!("v{}", i).as_bytes()])); }
        let delay_us = 50 + next(3000);
        let chunk = [1usize, 13, 64, 4096][next(4) as usize];
        let got: Result<Vec<u8>, String> = rt.block_on(async {
            let server = nc.async_server(handle, async { let _ = stop_rx.await; }).await.map_err(|e| format!("server start: {}", e))?;
            let srv = tokio::spawn(server.run());
            let s = tokio::net::TcpStream::connect(("127.0.0.1", port)).await.map_err(|e| format!("connect: {}", e))?;
            let (mut rd, mut wr) = s.into_split();
            let w2 = wire.clone();
            let writer = tokio::spawn(async move { for c in w2.chunks(chunk) { if wr.write_all(c).await.is_err() { break; } let _ = wr.flush().await; tokio::task::yield_now().await; } wr });
            let stopper = tokio::spawn(async move { tokio::time::sleep(std::time::Duration::from_micros(delay_us)).await; let _ = stop_tx.send(()); });
            let mut got = Vec::new();
            let mut buf = vec![0u8; 65536];
            loop { match tokio::time::timeout(std::time::Duration::from_secs(10), rd.read(&mut buf)).await { Ok(Ok(0)) => break, Ok(Ok(k)) => got.extend(&buf[..k]), Ok(Err(_)) => break, Err(_) => return Err("the server did not close the connection within 10 s after the shutdown signal".to_string()) } }
            let _ = stopper.await; let _ = writer.await;
            let _ = tokio::time::timeout(std::time::Duration::from_secs(10), srv).await;
            Ok(got)
        });
        let hist = format!("seed {} round {}: 200 pipelined SETs in chunks of {} bytes, shutdown signal after {} us", seed, round, chunk, delay_us);
        match got {
            Err(e) => { println!("{{\"found\": true, \"kind\": \"shutdown\", \"props\": \"C16\", \"history\": {}, \"observed\": {}, \"expected\": {}}}", js(&hist), js(&e), js("the connection ends")); std::process::exit(0); }
            Ok(g) => {
                if g.len() % 5 != 0 || g.chunks(5).any(|c| c != b"+OK\r\n") {
                    println!("{{\"found\": true, \"kind\": \"shutdown\", \"props\": \"C16\", \"history\": {}, \"observed\": {}, \"expected\": {}}}", js(&hist), js(&format!("the client received {} bytes: ...{:?}", g.len(), String::from_utf8_lossy(&g[g.len().saturating_sub(12)..]))), js("only complete +OK replies, then end of stream"));
                    std::process::exit(0);
                }
                let acked = g.len() / 5;
                drop(kv);
                std::thread::sleep(std::time::Duration::from_millis(30));
                let mut c2 = SConf::default();
                c2.path(dir.path()).concurrency(2).max_file_size(1 << 20).sync(SyncStrategy::None).merge_check_interval_ms(1_000_000_000).merge_check_jitter(0.0);
                let kv2 = c2.open().unwrap(); let h2 = kv2.get_handle();
                for i in 0..acked { let v = h2.get(bytes::Bytes::from(format!("key{}", i))).ok().flatten();
                    if v.as_deref() != Some(format!("v{}", i).as_bytes()) {
                        println!("{{\"found\": true, \"kind\": \"shutdown\", \"props\": \"C16\", \"history\": {}, \"observed\": {}, \"expected\": {}}}", js(&hist), js(&format!("{} replies arrived but key{} reads {:?} after the shutdown", acked, i, v)), js("every acknowledged SET is in the store"));
                        std::process::exit(0); } }
            }
        }
    }
    println!("{{\"found\": false, \"evaluations\": {}, \"searched\": \"{} connections: 8 with 200 pipelined SETs each and the shutdown signal at a pseudo-random moment, 2 with a 12 MiB reply in flight and a slow reader, 2 on an engine whose call fails, 2 with the server run as in the binary (store closed and runtime dropped the moment Server::run returns; a slow SET / a 10 MiB reply in flight); received bytes must be whole replies, acknowledged SETs must be stored, a failed call is never acknowledged\"}}", rounds, rounds);
}
// ---------------------------------------------------------------------------------------------------
// C06, client side (bounded): the crate's own Client against (a) the real Server on the real engine, compared with a map model,
// and (b) a scripted peer that answers with replies the real server never sends (how the client reads replies)
fn client_search() {
    use bitcask::storage::bitcask::{Config as SConf, SyncStrategy};
    use std::collections::BTreeMap;
    use tokio::io::{AsyncReadExt, AsyncWriteExt};
    let rt = tokio::runtime::Builder::new_multi_thread().worker_threads(2).enable_all().build().unwrap();
    let dir = tempfile::tempdir().unwrap();
    let mut c = SConf::default();
    c.path(dir.path()).concurrency(2).max_file_size(200).sync(SyncStrategy::None).merge_check_interval_ms(1_000_000_000).merge_check_jitter(0.0);
    let kv = c.open().unwrap();
    let handle = kv.get_handle();
    let port = { let l = std::net::TcpListener::bind("127.0.0.1:0").unwrap(); l.local_addr().unwrap().port() };
    let (stop_tx, stop_rx) = tokio::sync::oneshot::channel::<()>();
    let mut nc = bitcask::net::Config::default();
    nc.host = "127.0.0.1".parse().unwrap(); nc.port = port;
    let found: Result<Option<(String, String, String)>, String> = rt.block_on(async {
        let server = nc.async_server(handle, async { let _ = stop_rx.await; }).await.map_err(|e| format!("server start: {}", e))?;
        let srv = tokio::spawn(server.run());
        let mut cl = bitcask::net::Client::connect(("127.0.0.1", port)).await.map_err(|e| format!("connect: {}", e))?;
        let mut model: BTreeMap<String, Vec<u8>> = BTreeMap::new();
        let mut hist: Vec<String> = Vec::new();
        let values: Vec<Vec<u8>> = vec![b"v".to_vec(), b"".to_vec(), b"\r\n".to_vec(), vec![0xff, 0x00, 0xfe], b"$-1\r\n".to_vec(), vec![b'x'; 3000], b"OK".to_vec()];
        let keys = ["k0", "k1", "", "\u{e9}t\u{e9}"];      // the empty string is a key like any other
        let mut x: u64 = 88172645463325252;
        let mut next = move |n: u64| { x ^= x << 13; x ^= x >> 7; x ^= x << 17; x % n };
        for _ in 0..200 {
            let k = keys[next(4) as usize].to_string();
            match next(10) {
                0..=3 => { let v = values[next(values.len() as u64) as usize].clone(); hist.push(format!("set {} <{} bytes>", k, v.len()));
                    if let Err(e) = cl.set(k.clone(), bytes::Bytes::from(v.clone())).await { return Ok(Some((hist.join("; "), format!("Client::set failed: {}", e), "Ok(())".into()))); } model.insert(k, v); }
                4..=6 => { hist.push(format!("get {}", k)); let got = cl.get(k.clone()).await.map_err(|e| e.to_string()).map(|o| o.map(|b| b.to_vec())); let exp = Ok(model.get(&k).cloned());
                    if got != exp { return Ok(Some((hist.join("; "), format!("Client::get returned {:?}", got.map(|o| o.map(|v| v.len()))), format!("{:?} (lengths)", exp.map(|o: Option<Vec<u8>>| o.map(|v| v.len()))))));  } }
                _ => { let m = 1 + next(3) as usize; let ks: Vec<String> = (0..m).map(|_| keys[next(4) as usize].to_string()).collect(); hist.push(format!("del {}", ks.join(" ")));
                    let mut cnt = 0i64; for kk in ks.iter() { if model.remove(kk).is_some() { cnt += 1; } }
                    let got = cl.del(ks).await.map_err(|e| e.to_string()); if got != Ok(cnt) { return Ok(Some((hist.join("; "), format!("Client::del returned {:?}", got), format!("Ok({})", cnt)))); } }
            }
        }
        drop(cl);
        let _ = stop_tx.send(());
        let _ = tokio::time::timeout(std::time::Duration::from_secs(10), srv).await;
        // (b) a scripted peer: reads whatever arrives and answers with a fixed reply
        for (reply, what) in [(&b"+QUEUED\r\n"[..], "set"), (&b":1\r\n"[..], "set"), (&b"+OK\r\n"[..], "get"), (&b":5\r\n"[..], "get"), (&b"$2\r\nOK\r\n"[..], "del"), (&b"-ERR boom\r\n"[..], "get"), (&b"-ERR boom\r\n"[..], "set"), (&b"-ERR boom\r\n"[..], "del")] {
            let l = tokio::net::TcpListener::bind("127.0.0.1:0").await.map_err(|e| e.to_string())?;
            let p = l.local_addr().unwrap().port();
            let rep = reply.to_vec();
            let peer = tokio::spawn(async move { if let Ok((mut s, _)) = l.accept().await { let mut b = [0u8; 256]; let _ = s.read(&mut b).await; let _ = s.write_all(&rep).await; let _ = s.flush().await; tokio::time::sleep(std::time::Duration::from_millis(200)).await; } });
            let mut cl = bitcask::net::Client::connect(("127.0.0.1", p)).await.map_err(|e| format!("connect: {}", e))?;
            let ok = match what { "set" => cl.set("k".into(), bytes::Bytes::from_static(b"v")).await.is_ok(), "get" => cl.get("k".into()).await.is_ok(), _ => cl.del(vec!["k".into()]).await.is_ok() };
            let _ = peer.await;
            if ok { return Ok(Some((format!("a peer answers a {} request with {:?}", what, String::from_utf8_lossy(reply)), format!("Client::{} returned Ok", what), "an error: not a reply this command can get".into()))); }
        }
        Ok(None)
    });
    match found {
        Err(e) => { eprintln!("client-search: {}", e); std::process::exit(3); }
        Ok(Some((h, o, e))) => println!("{{\"found\": true, \"kind\": \"client\", \"props\": \"C06\", \"history\": {}, \"observed\": {}, \"expected\": {}}}", js(&h), js(&o), js(&e)),
        Ok(None) => println!("{{\"found\": false, \"evaluations\": 208, \"searched\": \"200 set/get/del calls of the crate's Client against the real Server and engine (binary values, multi-key DEL) compared with a map model; 8 scripted replies that a command cannot get (wrong type, error) must be refused\"}}"),
    }
}
// ---------------------------------------------------------------------------------------------------
// C15 (bounded): the real Server with max_connections = 2.  Connections come and go in every way a client can end one; afterwards
// exactly two connections are served concurrently and a third is served only once one of them has closed.
/// A storage whose `clone()` panics once when armed: Handler::run clones the storage per command IN THE CONNECTION TASK, so this is a
/// panic of the handler itself (a panic inside set/get/del would only be a JoinError of spawn_blocking, an ordinary error exit).
struct PanicKv<K> { inner: K, armed: std::sync::Arc<std::sync::atomic::AtomicBool> }
impl<K: Clone> Clone for PanicKv<K> {
    fn clone(&self) -> Self {
        if self.armed.swap(false, std::sync::atomic::Ordering::SeqCst) { panic!("verif: handler panic requested"); }
        PanicKv { inner: self.inner.clone(), armed: self.armed.clone() }
    }
}
impl<K: bitcask::storage::KeyValueStorage> bitcask::storage::KeyValueStorage for PanicKv<K> {
    type Error = K::Error;
    fn set(&self, key: bytes::Bytes, value: bytes::Bytes) -> Result<(), Self::Error> { self.inner.set(key, value) }
    fn get(&self, key: bytes::Bytes) -> Result<Option<bytes::Bytes>, Self::Error> { self.inner.get(key) }
    fn del(&self, key: bytes::Bytes) -> Result<bool, Self::Error> { self.inner.del(key) }
}
fn server_slots() {
    use bitcask::storage::bitcask::{Config as SConf, SyncStrategy};
    use tokio::io::{AsyncReadExt, AsyncWriteExt};
    let rt = tokio::runtime::Builder::new_multi_thread().worker_threads(2).enable_all().build().unwrap();
    let dir = tempfile::tempdir().unwrap();
    let mut c = SConf::default();
    c.path(dir.path()).concurrency(2).max_file_size(1 << 20).sync(SyncStrategy::None).merge_check_interval_ms(1_000_000_000).merge_check_jitter(0.0);
    let kv = c.open().unwrap();
    let armed = std::sync::Arc::new(std::sync::atomic::AtomicBool::new(false));
    let handle = PanicKv { inner: kv.get_handle(), armed: armed.clone() };
    let port = { let l = std::net::TcpListener::bind("127.0.0.1:0").unwrap(); l.local_addr().unwrap().port() };
    let (stop_tx, stop_rx) = tokio::sync::oneshot::channel::<()>();
    let mut nc = bitcask::net::Config::default();
    nc.host = "127.0.0.1".parse().unwrap(); nc.port = port; nc.max_connections = 2;
    const PING: &[u8] = b"*2\r\n$3\r\nGET\r\n$1\r\nk\r\n";   // reply: $-1\r\n
    let res: Result<(usize, String), String> = rt.block_on(async {
        let server = nc.async_server(handle, async { let _ = stop_rx.await; }).await.map_err(|e| format!("server start: {}", e))?;
        let srv = tokio::spawn(server.run());
        // is this connection served within `ms`?
        async fn served(s: &mut tokio::net::TcpStream, ms: u64) -> bool {
            if s.write_all(PING).await.is_err() { return false; }
            let mut buf = [0u8; 5]; let mut n = 0;
            while n < 5 { match tokio::time::timeout(std::time::Duration::from_millis(ms), s.read(&mut buf[n..])).await { Ok(Ok(0)) | Ok(Err(_)) | Err(_) => return false, Ok(Ok(k)) => n += k } }
            &buf == b"$-1\r\n"
        }
        let mut churned = 0usize;
        for round in 0..15usize {
            let mut s = tokio::net::TcpStream::connect(("127.0.0.1", port)).await.map_err(|e| format!("connect: {}", e))?;
            match round % 5 {
                4 => {   // the handler task panics (the storage clone it makes for the next command panics once)
                    if !served(&mut s, 8000).await { return Ok((churned, format!("connection {} (the only one open) was not served within 8 s", round))); }
                    armed.store(true, std::sync::atomic::Ordering::SeqCst);
                    let _ = s.write_all(PING).await; let mut b = [0u8; 64]; let _ = tokio::time::timeout(std::time::Duration::from_millis(1000), s.read(&mut b)).await;
                    armed.store(false, std::sync::atomic::Ordering::SeqCst);
                }
                0 => { if !served(&mut s, 8000).await { return Ok((churned, format!("connection {} (the only one open) was not served within 8 s", round))); } }   // clean close after one request
                1 => { let _ = s.write_all(b"*2\r\n$3\r\nGE").await; }                       // ends in the middle of a frame
                2 => { let _ = s.write_all(b"*1\r\n$4\r\nNOPE\r\n").await; let mut b = [0u8; 64]; let _ = tokio::time::timeout(std::time::Duration::from_millis(300), s.read(&mut b)).await; }   // unknown command
                _ => { let _ = s.write_all(b"!garbage\r\n").await; let mut b = [0u8; 64]; let _ = tokio::time::timeout(std::time::Duration::from_millis(300), s.read(&mut b)).await; }   // protocol error
            }
            drop(s);
            churned += 1;
            tokio::time::sleep(std::time::Duration::from_millis(30)).await;
        }
        // clients that reset the connection while it still waits in the accept queue (both slots are taken at that moment)
        {
            let mut a = tokio::net::TcpStream::connect(("127.0.0.1", port)).await.map_err(|e| format!("connect: {}", e))?;
            let mut b = tokio::net::TcpStream::connect(("127.0.0.1", port)).await.map_err(|e| format!("connect: {}", e))?;
            if !served(&mut a, 8000).await || !served(&mut b, 8000).await { return Ok((churned, "two concurrent connections were not both served within 8 s".into())); }
            for _ in 0..2 {
                let r = tokio::net::TcpStream::connect(("127.0.0.1", port)).await.map_err(|e| format!("connect: {}", e))?;
                #[allow(deprecated)]
                let _ = r.set_linger(Some(std::time::Duration::from_secs(0)));
                drop(r);      // RST
                churned += 1;
            }
            tokio::time::sleep(std::time::Duration::from_millis(80)).await;
            drop(a); drop(b);
            tokio::time::sleep(std::time::Duration::from_millis(150)).await;
        }
        // two at once must be served ...
        let mut a = tokio::net::TcpStream::connect(("127.0.0.1", port)).await.map_err(|e| format!("connect: {}", e))?;
        let mut b = tokio::net::TcpStream::connect(("127.0.0.1", port)).await.map_err(|e| format!("connect: {}", e))?;
        if !served(&mut a, 8000).await { return Ok((churned, "after the churn the first of two concurrent connections was not served within 8 s (slots leaked)".into())); }
        if !served(&mut b, 8000).await { return Ok((churned, "after the churn the second of two concurrent connections was not served within 8 s (slots leaked)".into())); }
        // ... a third one must wait ...
        let mut t = tokio::net::TcpStream::connect(("127.0.0.1", port)).await.map_err(|e| format!("connect: {}", e))?;
        if served(&mut t, 500).await { return Ok((churned, "a third connection was served while two others were open (max_connections = 2)".into())); }
        // ... until one of the two closes (its request is already in the socket)
        drop(a);
        let mut buf = [0u8; 5]; let mut n = 0;
        while n < 5 { match tokio::time::timeout(std::time::Duration::from_millis(8000), t.read(&mut buf[n..])).await { Ok(Ok(k)) if k > 0 => n += k, _ => return Ok((churned, "the waiting third connection was not served within 8 s after one of the two closed".into())) } }
        drop(b); drop(t);
        let _ = stop_tx.send(());
        let _ = tokio::time::timeout(std::time::Duration::from_secs(10), srv).await;
        Ok((churned, String::new()))
    });
    let hist = "max_connections = 2; 12 connections ending by clean close / mid-frame / unknown command / protocol error; 2 connections reset by the client while they wait in the accept queue; then 2 concurrent connections + a third";
    match res {
        Err(e) => { eprintln!("server-slots: {}", e); std::process::exit(3); }
        Ok((_, msg)) if !msg.is_empty() => println!("{{\"found\": true, \"kind\": \"slots\", \"props\": \"C15\", \"history\": {}, \"observed\": {}, \"expected\": {}}}", js(hist), js(&msg), js("two connections served, the third only after one of them closed")),
        Ok((n, _)) => println!("{{\"found\": false, \"evaluations\": {}, \"searched\": {}}}", n + 3, js(hist)),
    }
}
// ---------------------------------------------------------------------------------------------------
// storage scenarios: every one runs the real store in a fresh temp dir and compares with a map model
mod store {
    use bitcask::storage::bitcask::{Config, SyncStrategy};
    use bitcask::storage::KeyValueStorage;
    use bytes::Bytes;
    use std::collections::BTreeMap;

    fn b(s: &str) -> Bytes { Bytes::copy_from_slice(s.as_bytes()) }
    /// `props`: the properties whose statement the observation contradicts
    pub fn report(kind: &str, props: &str, history: &str, observed: String, expected: &str) -> ! {
        println!("{{\"found\": true, \"kind\": \"{}\", \"props\": {}, \"history\": {}, \"observed\": {}, \"expected\": {}}}", kind, crate::js(props), crate::js(history), crate::js(&observed), crate::js(expected));
        std::process::exit(0)
    }
    fn conf(dir: &std::path::Path, max: u64) -> Config {
        let mut c = Config::default();
        // background merges are kept out of the way by a check interval of ~11 days
        let sync = if std::env::var("VERIF_SYNC").map(|v| v == "always").unwrap_or(false) { SyncStrategy::Always } else { SyncStrategy::None };
        c.path(dir).concurrency(1).max_file_size(max).sync(sync).merge_check_interval_ms(1_000_000_000).merge_check_jitter(0.0);
        c
    }
    fn files(dir: &std::path::Path) -> Vec<String> {
        // (a background merge may remove a file between the listing and the stat: such an entry is simply gone)
        let mut v: Vec<String> = std::fs::read_dir(dir).unwrap().filter_map(|e| { let e = e.ok()?; let len = e.metadata().ok()?.len(); Some(format!("{}:{}", e.file_name().to_string_lossy(), len)) }).collect();
        v.sort();
        v
    }

    fn mk_conf(d: &std::path::Path, max: u64, mode: &str) -> Config {
        let mut c = conf(d, max);
        match mode {
            "all" => { c.merge_threshold_small_file(u64::MAX).merge_threshold_dead_bytes(0).merge_threshold_fragmentation(0.0); }
            "frag50" => { c.merge_threshold_small_file(0).merge_threshold_dead_bytes(u64::MAX).merge_threshold_fragmentation(0.5); }
            "none" => { c.merge_threshold_small_file(0).merge_threshold_dead_bytes(u64::MAX).merge_threshold_fragmentation(1.0); }
            _ => { c.merge_threshold_small_file(0).merge_threshold_dead_bytes(u64::MAX).merge_threshold_fragmentation(0.0); }
        }
        c
    }

    /// C03 (child process, meant to be killed): run the history on the store in `dir`, printing "ACK <i>" after each
    /// operation has returned.  No checks here.
    pub fn crash_run(dir: &str, max: u64, mode: &str, ops: &[&str]) {
        use std::io::Write;
        let d = std::path::Path::new(dir);
        let mut kv = Some(mk_conf(d, max, mode).open().unwrap());
        println!("OPENED"); std::io::stdout().flush().ok();
        for (i, op) in ops.iter().enumerate() {
            let p: Vec<&str> = op.split(' ').collect();
            let h = kv.as_ref().unwrap().get_handle();
            let ok = match p[0] {
                "set" => h.set(b(p[1]), b(p[2])).is_ok(),
                "del" => h.del(b(p[1])).is_ok(),
                "merge" => h.verif_merge().is_ok(),
                "reopen" => { drop(h); kv = None; kv = Some(mk_conf(d, max, mode).open().unwrap()); true }
                _ => true,
            };
            println!("ACK {} {}", i, if ok { "ok" } else { "err" }); std::io::stdout().flush().ok();
        }
    }

    /// C03 (after the kill): open the directory the killed process left and compare every key with the map after the
    /// first `acked` operations, and with the map after one more (the operation in flight, applied).
    pub fn crash_verify(dir: &str, max: u64, mode: &str, ops: &[&str], acked: usize, label: &str) {
        let d = std::path::Path::new(dir);
        let hist = format!("{} | killed {}: {} operations had returned, in flight: `{}`", ops.join("; "), label, acked, ops.get(acked).unwrap_or(&"(none)"));
        let apply = |m: &mut BTreeMap<String, String>, op: &str| { let p: Vec<&str> = op.split(' ').collect(); match p[0] { "set" => { m.insert(p[1].into(), p[2].into()); } "del" => { m.remove(p[1]); } _ => {} } };
        let mut ma: BTreeMap<String, String> = BTreeMap::new();
        for op in ops.iter().take(acked) { apply(&mut ma, op); }
        let mut mb = ma.clone();
        if let Some(op) = ops.get(acked) { apply(&mut mb, op); }
        let kv = match mk_conf(d, max, mode).open() { Ok(k) => k, Err(e) => report("crash-unopenable", "C03", &hist, format!("open failed: {}; files {:?}", e, files(d)), "the directory can be opened") };
        let h = kv.get_handle();
        let mut keys: Vec<String> = Vec::new();
        for op in ops.iter() { let p: Vec<&str> = op.split(' ').collect(); if p.len() > 1 && (p[0] == "set" || p[0] == "del") && !keys.contains(&p[1].to_string()) { keys.push(p[1].into()); } }
        let mut got: BTreeMap<String, String> = BTreeMap::new();
        for k in keys.iter() { match h.get(b(k)) { Ok(Some(v)) => { got.insert(k.clone(), String::from_utf8_lossy(&v).to_string()); } Ok(None) => {} Err(e) => report("crash-read-error", "C03", &hist, format!("get {} failed: {}; files {:?}", k, e, files(d)), "a value or None") } }
        if got != ma && got != mb {
            report("crash-state", "C03", &hist, format!("after restart the store reads {:?}; files {:?}", got, files(d)), &format!("{:?} (in-flight operation not applied) or {:?} (applied)", ma, mb));
        }
        // the recovered store must stay usable
        if let Err(e) = h.set(b("zz-after-crash"), b("1")) { report("crash-wedged", "C03", &hist, format!("set after restart failed: {}; files {:?}", e, files(d)), "Ok"); }
        // ... and what it acknowledges from now on must survive the next restart as well (a kill can leave files behind
        // that only do harm later, e.g. a stale hint file whose id the next active file takes)
        let mut m2 = got.clone();
        m2.insert("zz-after-crash".into(), "1".into());
        let mut post: Vec<String> = vec!["set zz-after-crash 1".into()];
        for (i, k) in keys.iter().enumerate() {
            if i % 2 == 0 {
                if let Err(e) = h.set(b(k), b("post-crash")) { report("crash-wedged", "C03", &hist, format!("set {} after restart failed: {}", k, e), "Ok"); }
                m2.insert(k.clone(), "post-crash".into()); post.push(format!("set {} post-crash", k));
            } else {
                if let Err(e) = h.del(b(k)) { report("crash-wedged", "C03", &hist, format!("del {} after restart failed: {}", k, e), "Ok"); }
                m2.remove(k); post.push(format!("del {}", k));
            }
        }
        let files_before = files(d);
        drop(h); drop(kv);
        let kv2 = match mk_conf(d, max, mode).open() { Ok(k) => k, Err(e) => report("crash-second-restart", "C03", &hist, format!("second open failed: {}; files {:?}", e, files(d)), "the directory can be opened") };
        let h2 = kv2.get_handle();
        let mut got2: BTreeMap<String, String> = BTreeMap::new();
        let mut keys2 = keys.clone(); keys2.push("zz-after-crash".into());
        for k in keys2.iter() { match h2.get(b(k)) { Ok(Some(v)) => { got2.insert(k.clone(), String::from_utf8_lossy(&v).to_string()); } Ok(None) => {} Err(e) => report("crash-second-restart", "C03", &hist, format!("get {} failed after the second restart: {}", k, e), "a value or None") } }
        if got2 != m2 {
            report("crash-second-restart", "C03", &format!("{} | after the first restart: {} (all acknowledged); clean restart", hist, post.join("; ")),
                   format!("after the second restart the store reads {:?}; files before it {:?}", got2, files_before), &format!("{:?}", m2));
        }
        println!("{{\"found\": false}}");
    }

    fn data_size(dir: &std::path::Path) -> u64 {
        std::fs::read_dir(dir).unwrap().map(|e| e.unwrap()).filter(|e| e.file_name().to_string_lossy().ends_with(".bitcask.data")).map(|e| e.metadata().unwrap().len()).sum()
    }
    /// size of the data files of a fresh store that received exactly the given pairs
    fn fresh_size(model: &BTreeMap<String, String>) -> u64 {
        let d = tempfile::tempdir().unwrap();
        { let kv = conf(d.path(), 1 << 40).open().unwrap(); let h = kv.get_handle(); for (k, v) in model.iter() { h.set(b(k), b(v)).unwrap(); } }
        data_size(d.path())
    }

    /// C17 (first two clauses): after the store object is dropped every operation through a remaining handle fails with
    /// the closed error and the directory does not change
    pub fn closed_search() {
        let dir = tempfile::tempdir().unwrap();
        let kv = mk_conf(dir.path(), 64, "all").open().unwrap();
        let h = kv.get_handle();
        h.set(b("a"), b("1")).unwrap(); h.set(b("b"), b("2")).unwrap(); h.set(b("a"), b("3")).unwrap(); h.del(b("b")).unwrap();
        let h2 = h.clone();
        drop(kv);
        std::thread::sleep(std::time::Duration::from_millis(50));
        let before = files(dir.path());
        let hist = "set a 1; set b 2; set a 3; del b; [store object dropped]; operations through the remaining handles";
        let is_closed = |r: &dyn std::fmt::Debug| format!("{:?}", r).to_lowercase().contains("closed");
        let mut bad: Vec<String> = Vec::new();
        for (name, r) in vec![
            ("get a (present)", format!("{:?}", h.get(b("a")))), ("get b (deleted)", format!("{:?}", h.get(b("b")))), ("get zz (never written)", format!("{:?}", h.get(b("zz")))), ("get <empty key>", format!("{:?}", h.get(b("")))),
            ("set a 9", format!("{:?}", h.set(b("a"), b("9")))), ("set new 1", format!("{:?}", h2.set(b("new"), b("1")))), ("del a (present)", format!("{:?}", h.del(b("a")))), ("del zz (absent)", format!("{:?}", h2.del(b("zz")))),
            ("merge", format!("{:?}", h.verif_merge())), ("clone.get a", format!("{:?}", h2.get(b("a")))),
        ] { if !(r.starts_with("Err") && is_closed(&r)) { bad.push(format!("{} => {}", name, r)); } }
        let after = files(dir.path());
        if !bad.is_empty() { report("closed", "C17", hist, bad.join("; "), "Err(Closed) for every operation"); }
        if before != after { report("closed", "C17", hist, format!("the directory changed: {:?} -> {:?}", before, after), "no change on disk"); }
        // the drop lands while other threads keep the writer busy (merges in a loop, writers with sync=always): once the drop has
        // returned -- operations in flight at that moment may still finish -- everything must be refused
        for cycle in 0..6u32 {
            let dir = tempfile::tempdir().unwrap();
            let mut c = mk_conf(dir.path(), 256, "all");
            c.sync(SyncStrategy::Always);
            let kv = c.open().unwrap();
            let h = kv.get_handle();
            for i in 0..40 { h.set(b(&format!("k{}", i % 10)), b(&format!("v{}", i))).unwrap(); }
            let stop = std::sync::Arc::new(std::sync::atomic::AtomicBool::new(false));
            let mut ths = Vec::new();
            for t in 0..4u32 {
                let (h, stop) = (h.clone(), stop.clone());
                ths.push(std::thread::spawn(move || { let mut i = 0u64; while !stop.load(std::sync::atomic::Ordering::SeqCst) { i += 1;
                    if t == 0 { let _ = h.verif_merge(); } else { let _ = h.set(b(&format!("w{}-{}", t, i % 7)), b(&format!("{}", i))); } } }));
            }
            std::thread::sleep(std::time::Duration::from_millis(20 + 15 * cycle as u64));
            drop(kv);
            std::thread::sleep(std::time::Duration::from_millis(100));      // whatever was in flight at the drop has finished
            let hist2 = format!("cycle {}: 40 sets; 1 thread merging in a loop and 3 threads writing with sync=always; [store object dropped while they run]; 100 ms later: operations through a handle", cycle);
            let mut bad: Vec<String> = Vec::new();
            for (name, r) in vec![("get k1 (present)", format!("{:?}", h.get(b("k1")))), ("set k1 x", format!("{:?}", h.set(b("k1"), b("x")))), ("del k2", format!("{:?}", h.del(b("k2")))), ("merge", format!("{:?}", h.verif_merge())), ("get zz (absent)", format!("{:?}", h.get(b("zz"))))] {
                if !(r.starts_with("Err") && is_closed(&r)) { bad.push(format!("{} => {}", name, r)); } }
            stop.store(true, std::sync::atomic::Ordering::SeqCst);
            for t in ths { let _ = t.join(); }
            if !bad.is_empty() { report("closed", "C17", &hist2, bad.join("; "), "Err(Closed) for every operation"); }
        }
        println!("{{\"found\": false, \"evaluations\": 40, \"searched\": \"6 drops of the store object while a merging thread and three sync=always writers keep the writer lock busy, 5 operations after each; 10 operations (get / set / del of present, deleted, absent and empty keys, merge, through the handle and a clone) after the store object was dropped; directory listing compared\"}}");
    }

    /// C04 (bounded, schedules chosen by the OS): writer threads, reader threads and a merging thread on one store with
    /// tiny files.  Each key has ONE writer that writes increasing counters (and deletes now and then), so every read
    /// can be checked against real time: the value read must be at least the last write that had COMPLETED when the
    /// read started and at most the last write that had STARTED when the read ended (a deleted key may read None in
    /// the same window).  Any error or panic of an operation is a finding.
    pub fn concurrent_search(seed: u64, millis: u64) {
        use std::sync::atomic::{AtomicBool, AtomicI64, AtomicU64, Ordering::SeqCst};
        use std::sync::Arc;
        let dir = tempfile::tempdir().unwrap();
        let mut c = conf(dir.path(), if seed % 2 == 1 { 1_000_000 } else { 200 });
        // odd seeds: far more reader threads than cores, large files, writers that pause between writes and a merge every 2 ms: every
        // pass replaces the few files there are, so every reader has to open a new file after every pass and is often preempted
        // between looking a key up and opening the file it points to
        let crowded = seed % 2 == 1;
        let cores = std::thread::available_parallelism().map(|n| n.get()).unwrap_or(4);
        let nr: usize = if crowded { std::cmp::max(16, 4 * cores) } else { 3 };
        c.concurrency(if crowded { 8 } else { 3 }).merge_threshold_small_file(u64::MAX).merge_threshold_dead_bytes(0).merge_threshold_fragmentation(0.0);
        let kv = c.open().unwrap();
        const NW: usize = 3; const KPW: usize = 2; #[allow(non_snake_case)] let NR: usize = nr;
        // per key: started / completed sequence numbers; value = seq as decimal, seq odd-multiples-of-7 are deletes
        let started: Arc<Vec<AtomicI64>> = Arc::new((0..NW * KPW).map(|_| AtomicI64::new(0)).collect());
        let completed: Arc<Vec<AtomicI64>> = Arc::new((0..NW * KPW).map(|_| AtomicI64::new(0)).collect());
        let stop = Arc::new(AtomicBool::new(false));
        let ops = Arc::new(AtomicU64::new(0));
        let finding: Arc<std::sync::Mutex<Option<(String, String)>>> = Arc::new(std::sync::Mutex::new(None));
        let is_del = |s: i64| s % 7 == 0;
        let mut ths = Vec::new();
        for w in 0..NW {
            let h = kv.get_handle(); let (st, co, stop, ops, finding) = (started.clone(), completed.clone(), stop.clone(), ops.clone(), finding.clone());
            ths.push(std::thread::spawn(move || { let mut x = seed.wrapping_add(w as u64 + 1).wrapping_mul(6364136223846793005);
                while !stop.load(SeqCst) { x = x.wrapping_mul(6364136223846793005).wrapping_add(1442695040888963407); let k = w * KPW + ((x >> 33) as usize % KPW);
                    let s = st[k].load(SeqCst) + 1; st[k].store(s, SeqCst);
                    let key = format!("key{}", k);
                    let r = if is_del(s) { h.del(b(&key)).map(|_| ()) } else { h.set(b(&key), b(&format!("{}", s))) };
                    if let Err(e) = r { *finding.lock().unwrap() = Some((format!("writer {}: op #{} on {} failed: {}", w, s, key, e), "every operation completes".into())); stop.store(true, SeqCst); return; }
                    co[k].store(s, SeqCst); ops.fetch_add(1, SeqCst); if crowded { std::thread::sleep(std::time::Duration::from_micros(200)); } } }));
        }
        for r in 0..NR {
            let h = kv.get_handle(); let (st, co, stop, ops, finding) = (started.clone(), completed.clone(), stop.clone(), ops.clone(), finding.clone());
            ths.push(std::thread::spawn(move || { let mut x = seed.wrapping_add(100 + r as u64).wrapping_mul(6364136223846793005);
                while !stop.load(SeqCst) { x = x.wrapping_mul(6364136223846793005).wrapping_add(1442695040888963407); let k = (x >> 33) as usize % (NW * KPW);
                    let lo = co[k].load(SeqCst);
                    let got = h.get(b(&format!("key{}", k)));
                    let hi = st[k].load(SeqCst);
                    ops.fetch_add(1, SeqCst);
                    // the read takes effect after some write s* of this key with lo <= s* <= hi (0 = nothing written yet)
                    let ok = match &got {
                        Err(_) => false,
                        Ok(Some(v)) => { let s: i64 = String::from_utf8_lossy(v).parse().unwrap_or(-1); s >= 1 && !is_del(s) && lo <= s && s <= hi },
                        Ok(None) => (lo..=hi).any(|s| s == 0 || is_del(s)),
                    };
                    if !ok { *finding.lock().unwrap() = Some((format!("reader {}: get key{} returned {:?} although write #{} had completed before the read started and write #{} was the last started when it ended (deletes are the multiples of 7)", r, k, got.as_ref().map(|o| o.as_ref().map(|v| String::from_utf8_lossy(v).to_string())), lo, hi),
                        "a value between those two writes".into())); stop.store(true, SeqCst); return; } } }));
        }
        { let h = kv.get_handle(); let (stop, finding) = (stop.clone(), finding.clone());
          ths.push(std::thread::spawn(move || { while !stop.load(SeqCst) { if let Err(e) = h.verif_merge() { *finding.lock().unwrap() = Some((format!("merge failed: {}", e), "every operation completes".into())); stop.store(true, SeqCst); return; } std::thread::sleep(std::time::Duration::from_millis(3)); } })); }
        let t0 = std::time::Instant::now();
        while t0.elapsed().as_millis() < millis as u128 && !stop.load(SeqCst) { std::thread::sleep(std::time::Duration::from_millis(10)); }
        stop.store(true, SeqCst);
        let mut panicked = false;
        for t in ths { if t.join().is_err() { panicked = true; } }
        let f = finding.lock().unwrap().clone();
        if panicked && f.is_none() { report("concurrent", "C04", &format!("seed {}: {} writers x {} keys, {} readers, 1 merger, max_file_size {}{}", seed, NW, KPW, NR, if crowded { 1_000_000 } else { 200 }, if crowded { ", writers pause 200 us between writes" } else { "" }), "a thread panicked inside a store operation".into(), "no panic"); }
        if let Some((obs, exp)) = f { report("concurrent", "C04", &format!("seed {}: {} writers x {} keys, {} readers, 1 merger, max_file_size {}{}", seed, NW, KPW, NR, if crowded { 1_000_000 } else { 200 }, if crowded { ", writers pause 200 us between writes" } else { "" }), obs, &exp); }
        println!("{{\"found\": false, \"evaluations\": {}, \"searched\": \"{} operations by {} writer, {} reader and 1 merging thread in {} ms (single writer per key, reads checked against real-time bounds)\"}}", ops.load(SeqCst), ops.load(SeqCst), NW, NR, millis);
    }

    /// generic history runner: ops are strings "set k v" / "del k" / "get k" / "merge" / "reopen" / "precreate-data N" / "precreate-hint N"
    pub fn run_history(max: u64, mode: &str, ops: &[&str], label: &str) {
        let dir = tempfile::tempdir().unwrap();
        let (mode, cache0) = match mode.strip_suffix("-cache0") { Some(m) => (m, true), None => (mode, false) };
        let mk = |d: &std::path::Path| {
            let mut c = conf(d, max);
            if cache0 { c.readers_cache_size(0); }      // a reader cache that keeps nothing
            match mode {
                // every file is selected / no file is selected / exactly the files holding at least one dead entry
                "all" => { c.merge_threshold_small_file(u64::MAX).merge_threshold_dead_bytes(0).merge_threshold_fragmentation(0.0); }
                "frag50" => { c.merge_threshold_small_file(0).merge_threshold_dead_bytes(u64::MAX).merge_threshold_fragmentation(0.5); }
                "none" => { c.merge_threshold_small_file(0).merge_threshold_dead_bytes(u64::MAX).merge_threshold_fragmentation(1.0); }
                // every file is eligible, but ONLY because it is smaller than small_file (the other two thresholds can never be exceeded)
                "allsmall" => { c.merge_threshold_small_file(u64::MAX).merge_threshold_dead_bytes(u64::MAX).merge_threshold_fragmentation(1.0); }
                // fragmented files and files smaller than the maximum (in practice: the active file) -- a selection with gaps
                "gap" => { c.merge_threshold_small_file(max).merge_threshold_dead_bytes(u64::MAX).merge_threshold_fragmentation(0.4); }
                _ => { c.merge_threshold_small_file(0).merge_threshold_dead_bytes(u64::MAX).merge_threshold_fragmentation(0.0); }
            }
            c
        };
        let mut kv = Some(mk(dir.path()).open().unwrap());
        let mut model: BTreeMap<String, String> = BTreeMap::new();
        // a failed set / del may or may not have taken effect (C20): the alternative value of such a key
        let mut alt: BTreeMap<String, Option<String>> = BTreeMap::new();
        let hist = ops.join("; ");
        let (mut had_merge, mut had_reopen, mut had_fault) = (false, false, false);
        // an operation that never returns (e.g. a get spinning on an empty reader pool): a watchdog reports it with the history
        let progress = std::sync::Arc::new(std::sync::atomic::AtomicU64::new(0));
        let done = std::sync::Arc::new(std::sync::atomic::AtomicBool::new(false));
        {
            let (pg, dn, h3, lbl) = (progress.clone(), done.clone(), hist.clone(), label.to_string());
            std::thread::spawn(move || {
                let mut last = (u64::MAX, std::time::Instant::now());
                loop {
                    std::thread::sleep(std::time::Duration::from_millis(500));
                    if dn.load(std::sync::atomic::Ordering::SeqCst) { return; }
                    let cur = pg.load(std::sync::atomic::Ordering::SeqCst);
                    if cur != last.0 { last = (cur, std::time::Instant::now()); }
                    else if last.1.elapsed() > std::time::Duration::from_secs(30) {
                        println!("{{\"found\": true, \"kind\": \"{}\", \"props\": \"C01,C04,C20\", \"history\": {}, \"observed\": {}, \"expected\": \"every operation returns\"}}", lbl, crate::js(&h3), crate::js(&format!("operation number {} has not returned for 30 s (the process is still running: a loop that makes no progress)", cur)));
                        std::process::exit(0);
                    }
                }
            });
        }
        // stray files put into the directory by the history (C14: the store must never adopt, extend or truncate a file it did not create)
        let mut strays: Vec<String> = Vec::new();
        // a panic inside a store operation: reported with the history that led to it
        let hist2 = hist.clone();
        let cur_op = std::sync::Arc::new(std::sync::Mutex::new(String::new()));
        let cur2 = cur_op.clone();
        let fault_seen = std::sync::Arc::new(std::sync::atomic::AtomicBool::new(false));
        let fault2 = fault_seen.clone();
        std::panic::set_hook(Box::new(move |info| {
            let op = cur2.lock().map(|g| g.clone()).unwrap_or_default();
            let props = if fault2.load(std::sync::atomic::Ordering::SeqCst) { "C01,C04,C20" } else { "C01,C04" };
            println!("{{\"found\": true, \"kind\": \"panic\", \"props\": \"{}\", \"history\": {}, \"observed\": {}, \"expected\": \"every operation returns a result\"}}",
                     props, crate::js(&hist2), crate::js(&format!("{} panicked: {}", op, info)));
            std::process::exit(0);
        }));
        // C14: no data file grows beyond the configured maximum by more than one entry (bincode: 8 tstamp + 8 + key + 1 [+ 8 + value])
        let max_entry: u64 = ops.iter().map(|o| { let q: Vec<&str> = o.trim_start_matches('!').split(' ').collect(); match q[0] { "set" => 33 + q[1].len() as u64 + q[2].len() as u64, "del" => 17 + q[1].len() as u64, _ => 0 } }).max().unwrap_or(0);
        // C14: every data file that appears has an id above every id the directory has contained so far (listed before each operation
        // and after the last one; not in histories that put files of their own into the directory or damage it)
        let mut ids_prev: std::collections::BTreeSet<u64> = std::collections::BTreeSet::new();
        let mut id_top: Option<u64> = None;
        let mut ids_oracle = |i: usize, had_fault: bool| {
            if had_fault || hist.contains("precreate") || !crate::want("C14") { return; }
            let mut now: std::collections::BTreeSet<u64> = std::collections::BTreeSet::new();
            for e in std::fs::read_dir(dir.path()).unwrap() { let n = e.unwrap().file_name().to_string_lossy().to_string();
                if let Some(x) = n.strip_suffix(".bitcask.data") { if let Ok(id) = x.parse::<u64>() { now.insert(id); } } }
            for id in now.iter() { if !ids_prev.contains(id) { if let Some(t) = id_top { if *id <= t {
                report(label, "C14", &hist, format!("before op {}: data file {} has appeared although the directory has already contained id {}; files {:?}", i, id, t, files(dir.path())), &format!("an id above {}: ids only grow and are never used again", t)); } } } }
            if let Some(m) = now.iter().next_back() { if id_top.map_or(true, |t| *m > t) { id_top = Some(*m); } }
            ids_prev = now;
        };
        for (i, op) in ops.iter().enumerate() {
            ids_oracle(i, had_fault);
            if i > 0 && max < (1u64 << 40) && !had_fault && !hist.contains("precreate") && crate::want("C14") {
                for e in std::fs::read_dir(dir.path()).unwrap() { let e = e.unwrap(); let n = e.file_name().to_string_lossy().to_string();
                    if n.ends_with(".bitcask.data") { let sz = e.metadata().unwrap().len(); if sz > max + max_entry {
                        report(label, "C14", &hist, format!("before op {}: {} holds {} bytes (max_file_size {}, largest entry {} bytes); files {:?}", i, n, sz, max, max_entry, files(dir.path())), &format!("at most {} bytes: a file is closed as soon as it exceeds the maximum", max + max_entry)); } } }
            }
            if crate::want("C14") { for sname in strays.iter() { if let Ok(md) = std::fs::metadata(dir.path().join(sname)) { if md.len() != 0 {
                report(label, "C14", &hist, format!("before op {}: the stray file {} (created empty by the history, not by the store) now holds {} bytes; files {:?}", i, sname, md.len(), files(dir.path())), "untouched: the store creates its files exclusively and fails when the name exists"); } } } }
            *cur_op.lock().unwrap() = format!("op {} `{}`", i, op);
            progress.store(i as u64 + 1, std::sync::atomic::Ordering::SeqCst);
            // which properties a wrong read contradicts at this point of the history
            let rp = format!("C01{}{}{}", if had_reopen { ",C02" } else { "" }, if had_merge { ",C05,C12" } else { "" }, if had_fault { ",C20" } else { "" });
            let rp = rp.as_str();
            let h = kv.as_ref().unwrap().get_handle();
            // `!op`: the environment is healthy again at this point, so the operation must succeed (C20: a failed
            // operation leaves the store usable)
            let must = op.starts_with('!');
            let op: &str = if must { &op[1..] } else { op };
            let p: Vec<&str> = op.split(' ').collect();
            if must {
                let r: Result<(), String> = match p[0] {
                    "set" => h.set(b(p[1]), b(p[2])).map_err(|e| e.to_string()),
                    "del" => h.del(b(p[1])).map(|_| ()).map_err(|e| e.to_string()),
                    "merge" => h.verif_merge().map_err(|e| e.to_string()),
                    _ => Ok(()),
                };
                if let Err(e) = r {
                    report("wedged", "C20", &hist, format!("op {} `{}` failed although nothing is wrong with the disk any more: {}; files {:?}", i, op, e, files(dir.path())), "Ok: after a failed operation the store stays usable");
                }
                match p[0] { "set" => { model.insert(p[1].into(), p[2].into()); alt.remove(p[1]); continue; } "del" => { model.remove(p[1]); alt.remove(p[1]); continue; } "merge" => { had_merge = true; continue; } _ => {} }
            }
            match p[0] {
                "set" => { match h.set(b(p[1]), b(p[2])) { Ok(()) => { model.insert(p[1].into(), p[2].into()); alt.remove(p[1]); } Err(e) => { println!("# op {} `{}` failed: {}", i, op, e); alt.insert(p[1].into(), Some(p[2].into())); had_fault = true; fault_seen.store(true, std::sync::atomic::Ordering::SeqCst); } } }
                "del" => { match h.del(b(p[1])) {
                    Ok(was) => { let exp = model.remove(p[1]).is_some(); let unsure = alt.remove(p[1]).is_some(); if was != exp && !unsure && crate::want(rp) { report(label, rp, &hist, format!("op {} `{}` returned {}", i, op, was), &format!("{}", exp)); } }
                    Err(e) => { println!("# op {} `{}` failed: {}", i, op, e); alt.insert(p[1].into(), None); had_fault = true; fault_seen.store(true, std::sync::atomic::Ordering::SeqCst); } } }
                "get" => { let got = h.get(b(p[1])).map(|o| o.map(|v| String::from_utf8_lossy(&v).to_string())); let exp = model.get(p[1]).cloned();
                    match got { Ok(g) if g == exp => {}, Ok(g) if alt.get(p[1]) == Some(&g) => {}, _ if !crate::want(rp) => {}, other => report(label, rp, &hist, format!("op {} `{}` returned {:?}; files {:?}", i, op, other, files(dir.path())), &format!("{:?}", exp)) } }
                "merge" => { had_merge = true;
                    let before = data_size(dir.path());
                    // what the configured thresholds make eligible, computed from the statistics and file sizes before the pass
                    let stats_before = h.verif_dump().1;
                    let sizes_before: BTreeMap<u64, u64> = stats_before.iter().filter_map(|(id, _, _, _)| std::fs::metadata(dir.path().join(format!("{}.bitcask.data", id))).ok().map(|m| (*id, m.len()))).collect();
                    match h.verif_merge() {
                        Err(e) => { println!("# op {} merge failed: {}", i, e); had_fault = true; }
                        Ok(()) => {
                            if crate::want("C13") && !had_fault && !hist.contains("precreate") {
                                for (id, live, dead, _db) in stats_before.iter() {
                                    let total = live + dead; let frac = if total == 0 { f64::NAN } else { *dead as f64 / total as f64 };
                                    let size = match sizes_before.get(id) { Some(s0) => *s0, None => continue };
                                    let eligible = match mode { "all" | "allsmall" => true, "none" => false, "frag50" => frac > 0.5, "gap" => frac > 0.4 || size < max, _ => frac > 0.0 };
                                    let still = dir.path().join(format!("{}.bitcask.data", id)).exists();
                                    if eligible && still { report(label, "C13", &hist, format!("op {} merge: file {} ({} live, {} dead entries, {} bytes) is eligible under the configured thresholds but was not compacted; files {:?}", i, id, live, dead, size, files(dir.path())), "every eligible file is merged and removed"); }
                                    if !eligible && !still { report(label, "C13", &hist, format!("op {} merge: file {} ({} live, {} dead entries, {} bytes) is NOT eligible under the configured thresholds but was merged", i, id, live, dead, size), "only eligible files are merged"); }
                                }
                            }
                            // C13: a merge pass never grows the store; with every file eligible it leaves exactly the live pairs
                            let after = data_size(dir.path());
                            if crate::want("C13") && after > before { report(label, "C13", &hist, format!("op {} merge: data files grew from {} to {} bytes; files {:?}", i, before, after, files(dir.path())), "not larger than before"); }
                            if crate::want("C13") && (mode == "all" || mode == "allsmall") && alt.is_empty() && !had_fault {
                                let fresh = fresh_size(&model);
                                if after != fresh { report(label, "C13", &hist, format!("op {} merge (every file eligible): data files hold {} bytes; files {:?}", i, after, files(dir.path())), &format!("{} bytes: the size of a fresh store holding only the {} live pairs", fresh, model.len())); }
                            }
                        }
                    } }
                "reopen" => { had_reopen = true; drop(h); kv = None; std::thread::sleep(std::time::Duration::from_millis(30));
                    match mk(dir.path()).open() { Ok(k) => kv = Some(k), Err(e) => {
                        // AlreadyExists in a history that put no file of its own into the directory: the id chosen for the new active
                        // file is not above the ids the directory contains (C14)
                        let taken = e.to_string().contains("File exists") && !had_fault && !hist.contains("precreate");
                        report(label, if had_fault { "C02,C20" } else if taken { "C02,C14" } else { "C02" }, &hist, format!("op {} reopen failed: {}; files {:?}", i, e, files(dir.path())), "the directory can be opened") } } }
                // C12: the directory opened with its hint files and a copy of it opened without them must be the same store
                "ls" => { println!("# op {} files {:?} stats {:?}", i, files(dir.path()), h.verif_dump().1); }
                "checkhints" if !crate::want("C12") => {}
                "checkhints" => { had_reopen = true; drop(h); kv = None; std::thread::sleep(std::time::Duration::from_millis(30));
                    let copy = tempfile::tempdir().unwrap();
                    for e in std::fs::read_dir(dir.path()).unwrap() { let e = e.unwrap(); let n = e.file_name().to_string_lossy().to_string(); if !n.ends_with(".bitcask.hint") { std::fs::copy(e.path(), copy.path().join(&n)).unwrap(); } }
                    let had_hints = std::fs::read_dir(dir.path()).unwrap().any(|e| e.unwrap().file_name().to_string_lossy().ends_with(".bitcask.hint"));
                    let dump = |d: &std::path::Path| -> Result<(Vec<(Vec<u8>, u64, u64, u64)>, Vec<(u64, u64, u64, u64)>, Vec<(String, Option<Vec<u8>>)>), String> {
                        let k = mk(d).open().map_err(|e| e.to_string())?; let hh = k.get_handle(); let (mut kd, mut st) = hh.verif_dump();
                        let mut kd: Vec<(Vec<u8>, u64, u64, u64)> = kd.drain(..).map(|(a, b0, c, d0)| (a.to_vec(), b0, c, d0)).collect(); kd.sort(); st.sort();
                        let gets = model.keys().map(|kk| (kk.clone(), hh.get(b(kk)).ok().flatten().map(|v| v.to_vec()))).collect();
                        drop(hh); drop(k); std::thread::sleep(std::time::Duration::from_millis(30)); Ok((kd, st, gets)) };
                    let without = dump(copy.path()); let with = dump(dir.path());
                    if had_hints && !had_fault && with != without { report(label, "C12", &hist, format!("op {}: opened WITH hint files: {:?}; a copy opened WITHOUT them: {:?}", i, with.as_ref().map(|t| (&t.0, &t.1)), without.as_ref().map(|t| (&t.0, &t.1))), "the same key directory, statistics and answers"); }
                    match mk(dir.path()).open() { Ok(k) => kv = Some(k), Err(e) => report(label, "C02", &hist, format!("op {} reopen failed: {}", i, e), "the directory can be opened") } }
                "precreate-data" => { std::fs::File::create(dir.path().join(format!("{}.bitcask.data", p[1]))).unwrap(); strays.push(format!("{}.bitcask.data", p[1])); }
                "precreate-hint" => { std::fs::File::create(dir.path().join(format!("{}.bitcask.hint", p[1]))).unwrap(); strays.push(format!("{}.bitcask.hint", p[1])); }
                "remove-data" => { let _ = std::fs::remove_file(dir.path().join(format!("{}.bitcask.data", p[1]))); strays.retain(|x| x != &format!("{}.bitcask.data", p[1])); }
                // read-path faults (C20): a data file damaged behind the store's back; a get that needs it must FAIL, never answer
                "truncate-data" => { if let Ok(f) = std::fs::OpenOptions::new().write(true).open(dir.path().join(format!("{}.bitcask.data", p[1]))) { let _ = f.set_len(p[2].parse().unwrap()); } had_fault = true; }
                "geterr" if !crate::want("C20") => {}
                "geterr" => { had_fault = true; match h.get(b(p[1])) { Err(_) => {}, Ok(v) => report(label, "C20", &hist, format!("op {} `get {}` returned Ok({:?}) although the file holding the entry is gone / cut; files {:?}", i, p[1], v.map(|x| String::from_utf8_lossy(&x).to_string()), files(dir.path())), "an error") } }
                "remove-hint" => { let _ = std::fs::remove_file(dir.path().join(format!("{}.bitcask.hint", p[1]))); strays.retain(|x| x != &format!("{}.bitcask.hint", p[1])); }
                "checkall" => { for (k, v) in model.iter() { if alt.contains_key(k) { continue; } let got = h.get(b(k)).map(|o| o.map(|v| String::from_utf8_lossy(&v).to_string()));
                    match got { Ok(Some(g)) if &g == v => {}, _ if !crate::want(rp) => {}, other => report(label, rp, &hist, format!("op {} checkall: key {} reads {:?}; files {:?}", i, k, other, files(dir.path())), v) } } }
                "checkstats" if !crate::want("C19") => {}
                "checkstats" => { let (kd, st) = h.verif_dump();
                    // ground truth from the key directory: live count per file
                    let mut live: BTreeMap<u64, u64> = BTreeMap::new();
                    for (_, f, _, _) in kd.iter() { *live.entry(*f).or_default() += 1; }
                    // after a failed operation only "never under-count" is required (the record of the failed operation may be counted)
                    for (f, l, _d, _b) in st.iter() { let exp = live.get(f).cloned().unwrap_or(0); if (had_fault && *l < exp) || (!had_fault && *l != exp) { report(label, "C19", &hist, format!("op {} file {} live_keys {} (stats {:?})", i, f, l, st), &format!("{}", exp)); } }
                    for (f, n) in live.iter() { if !st.iter().any(|(g, _, _, _)| g == f) { report(label, "C19", &hist, format!("op {} file {} holds {} live keys but has no statistics entry (stats {:?})", i, f, n, st), "an entry with that live count"); } }
                    // dead bytes: in a fault-free history a data file consists of complete entries only, so the dead entries of a file
                    // take exactly its size minus the sizes of its live entries
                    if !had_fault && !hist.contains("precreate") {
                        let mut live_bytes: BTreeMap<u64, u64> = BTreeMap::new();
                        for (_, f, _, len) in kd.iter() { *live_bytes.entry(*f).or_default() += *len; }
                        for (f, _l, _d, bytes) in st.iter() {
                            let size = match std::fs::metadata(dir.path().join(format!("{}.bitcask.data", f))) { Ok(m) => m.len(), Err(_) => continue };
                            let exp = size - live_bytes.get(f).cloned().unwrap_or(0);
                            if *bytes != exp { report(label, "C19", &hist, format!("op {} file {} ({} bytes, {} of them live) dead_bytes {} (stats {:?})", i, f, size, size - exp, bytes, st), &format!("{}", exp)); }
                        }
                    } }
                _ => panic!("bad op {}", op),
            }
        }
        ids_oracle(ops.len(), had_fault);
        done.store(true, std::sync::atomic::Ordering::SeqCst);
    }

    /// bounded search: curated and pseudo-random histories against the map model (merges select every file, so the
    /// known tombstone finding cannot interfere)
    pub fn search(seed: u64) {
        let curated: Vec<(u64, &str, &str)> = vec![
            (0, "all", "set k v; del k; reopen; get k; set k w; reopen; get k; del k; del k; get k"),
            (0, "all", "set a 1; set a 2; set b 3; checkstats; merge; checkall; checkstats; get a; reopen; checkall; checkstats; merge; checkall"),
            (64, "all", "set a 1; set b 2; set c 3; set a 4; del b; checkstats; merge; checkall; get b; checkstats; reopen; checkall; get b; checkstats"),
            (1 << 20, "all", "set a 1; del a; set a 2; merge; get a; reopen; get a; merge; reopen; get a; checkstats"),
            (0, "all", "set a 1; set b 2; merge; merge; checkall; set c 3; merge; reopen; checkall; checkstats"),
            (1 << 20, "all", "set a 1; set a 22222; set a 333; set b 1; del b; set b 4444; checkstats; reopen; checkstats; checkall"),
            (30, "dead", "set a 1; set b 2; set a 3; merge; checkall; reopen; checkall; checkstats"),
            // a selection with a gap: file 0 (fragmented) and the small active file are selected, the full file between them is not
            (100, "gap", "set a 1; set b 1; set c 1; set d 1; set e 1; set f 1; set g 1; set h 1; set a 2; set b 2; set c 2; merge; checkall; get e; reopen; checkall; merge; checkall; checkhints; checkall"),
            (64, "allsmall", "set a 1; set b 2; set c 3; set a 4; set b 5; set d 6; set a 7; merge; checkall; merge; checkall; reopen; checkall"),
            (40, "all-cache0", "set k v; get k; set k w; get k; set j 1; get j; get k; merge; get k; get j; reopen; get k; checkall"),
            (0, "all", "precreate-data 1; set a 1; set b 2; get a; get b; reopen; get a; get b"),
            // a rollover that fails (the next file already exists), the obstacle is removed, the operation is retried (C20)
            (0, "all", "set a 1; precreate-data 2; del a; remove-data 2; !del a; checkstats; get a; !set a 2; checkstats; get a; reopen; checkall; checkstats"),
            (0, "all", "set a 1; set b 1; precreate-data 3; set a 2; remove-data 3; !set a 3; checkstats; !del a; checkstats; !del b; checkstats; get a; get b"),
            // read-path faults: the file holding `a` is removed behind the store's back (an `open` that fails with NotFound); reads of `a` must fail, reads of other keys must keep working
            (0, "all", "set a 1; set b 2; set c 3; remove-data 0; geterr a; get b; geterr a; get c; get b"),
            (0, "all-cache0", "set a 1; set b 2; get a; remove-data 0; geterr a; get b"),
            // a set whose rollover fails leaves its entry in the file (reported as failed); an acknowledged delete afterwards must hold across a restart
            (0, "all", "set a 1; precreate-data 2; set k 1; remove-data 2; !del k; get k; !set b 1; reopen; get k; get b; checkall"),
            // partial merge: an old file keeps a stale record of `a` (1 of 3 dead: not selected) while the file holding its live record is merged
            (64, "frag50", "set a 1; set b 1; set c 1; set a 2; set x 1; set x 2; set x 3; merge; checkall; checkhints; checkall; get a; merge; checkhints; checkall"),
            (200, "frag50", "set a 1; set b 1; set c 1; set d 1; reopen; set a 22222222222222222222; set x 1; set x 2; set x 3; set x 4; merge; checkall; checkhints; checkall; checkstats"),
            (64, "frag50", "set a 1; set b 1; set c 1; set x 0; set a 2; set x 1; set x 2; set y 1; set y 2; merge; checkall; reopen; checkall; reopen; checkall"),
        ];
        for (max, mode, ops) in curated.iter() {
            let v: Vec<&str> = ops.split(';').map(|s| s.trim()).collect();
            run_history(*max, mode, &v, "history");
        }
        // one data file far larger than the 8 KiB read buffer (entries straddle every buffer boundary), then a reopen
        {
            let mut ops: Vec<String> = Vec::new();
            for i in 0..420u32 { let k = format!("k{}", i % 37); if i % 11 == 10 { ops.push(format!("del {}", k)); } else { ops.push(format!("set {} v{}{}", k, i, "p".repeat((i % 53) as usize))); } }
            ops.push("checkall".into()); ops.push("reopen".into()); ops.push("checkall".into()); ops.push("checkstats".into()); ops.push("merge".into()); ops.push("checkall".into()); ops.push("checkhints".into()); ops.push("checkall".into());
            let v: Vec<&str> = ops.iter().map(|s| s.as_str()).collect();
            run_history(1 << 20, "all", &v, "history");
            run_history(8192, "all", &v, "history");
        }
        // small and large values of the same key alternating (a layer that treats values by size must not remember the wrong one)
        {
            // entries around the 8 KiB capacity of the write buffer (whole entry above it, value below it), read back at once
            for n in [8100usize, 8150, 8160, 8175, 8191, 8192, 8200, 16383, 16384] {
                let hs = format!("set edge {v}; get edge; set e2 1; get edge; get e2; del edge; get edge; set edge {v}; get edge; merge; get edge; reopen; get edge", v = "e".repeat(n));
                let v: Vec<&str> = hs.split(';').map(|s| s.trim()).collect();
                run_history(1 << 20, "all", &v, "history");
            }
            let big = "y".repeat(3000); let big2 = "z".repeat(70000);
            let hs = format!("set a 1; set a {b}; get a; set b {b}; set b 2; get b; del a; get a; set a {b}; get a; set a {c}; get a; set a 3; get a; checkall; reopen; checkall; get a; get b; merge; checkall", b = big, c = big2);
            let v: Vec<&str> = hs.split(';').map(|s| s.trim()).collect();
            run_history(1 << 20, "all", &v, "history");
            run_history(5000, "all", &v, "history");
        }
        let mut x = seed.wrapping_mul(6364136223846793005).wrapping_add(1442695040888963407);
        let mut next = move |n: u64| { x = x.wrapping_mul(6364136223846793005).wrapping_add(1442695040888963407); (x >> 33) % n };
        for _ in 0..40 {
            let max = [0u64, 40, 100, 1 << 20][next(4) as usize];
            let n = 6 + next(14);
            let mut ops: Vec<String> = Vec::new();
            for _ in 0..n {
                let k = format!("k{}", next(3));
                match next(10) {
                    0..=3 => { let d = next(5); ops.push(format!("set {} v{}{}", k, d, "x".repeat((d * 3) as usize))) }   // values of different sizes
                    4..=5 => ops.push(format!("del {}", k)),
                    6 => ops.push("merge".into()),
                    7 => ops.push("reopen".into()),
                    _ => ops.push(format!("get {}", k)),
                }
                ops.push("checkstats".into());
            }
            ops.push("checkall".into()); ops.push("reopen".into()); ops.push("checkall".into()); ops.push("checkstats".into());
            let v: Vec<&str> = ops.iter().map(|s| s.as_str()).collect();
            run_history(max, "all", &v, "history");
        }
        // partial merges (only files holding dead entries / fragmented files are selected): overwrites but NO deletes, so the
        // known tombstone finding (a dropped tombstone resurrecting an older value) cannot interfere
        for round in 0..24 {
            let max = [40u64, 100, 64][next(3) as usize];
            let mode = ["dead", "frag50"][(round % 2) as usize];
            let n = 10 + next(16);
            let mut ops: Vec<String> = Vec::new();
            for _ in 0..n {
                let k = format!("k{}", next(4));
                match next(10) {
                    0..=5 => { let d = next(7); ops.push(format!("set {} v{}{}", k, d, "x".repeat((d * 4) as usize))) }
                    6 => ops.push("merge".into()),
                    7 => ops.push("reopen".into()),
                    _ => ops.push(format!("get {}", k)),
                }
            }
            ops.push("merge".into()); ops.push("checkall".into()); ops.push("checkhints".into()); ops.push("checkall".into()); ops.push("reopen".into()); ops.push("checkall".into());
            let v: Vec<&str> = ops.iter().map(|s| s.as_str()).collect();
            run_history(max, mode, &v, "history");
        }
        println!("{{\"found\": false, \"searched\": \"23 curated (three with a failing rollover, one where files are eligible only by being small, two with a data file removed under the store, two with 420 operations in files larger than the read buffer, one merge whose selection has a gap, one with a reader cache of capacity 0, two with values of 1 B / 3 KB / 70 KB alternating), 40 pseudo-random histories with full merges and 24 with partial merges (no deletes), (set/del/get/merge/reopen over 3 keys, max_file_size in 0,40,100,1M) against the map model incl. per-file live-key and dead-byte accounting\"}}");
    }

    /// C18 (bounded, real time): the background tasks of the real store with a 25 ms check interval.
    ///  (a) policy never, triggers exceeded            -> no merge within 500 ms
    ///  (b) policy always, no trigger exceeded         -> no merge within 500 ms
    ///  (c) policy always, dead bytes above the trigger -> a merge within 8 s, without any client action
    /// A merge shows as a change of the set of data files (it always creates files with higher ids).
    pub fn background() {
        use bitcask::storage::bitcask::VerifMergePolicy as MergePolicy;
        let run = |name: &str, policy: MergePolicy, trig_dead: u64, trig_frag: f64, expect_merge: bool| {
            let dir = tempfile::tempdir().unwrap();
            let mut c = Config::default();
            c.path(dir.path()).concurrency(1).max_file_size(64).sync(SyncStrategy::None)
                .merge_policy(policy).merge_trigger_dead_bytes(trig_dead).merge_trigger_fragmentation(trig_frag)
                .merge_threshold_small_file(u64::MAX).merge_threshold_dead_bytes(0).merge_threshold_fragmentation(0.0)
                .merge_check_interval_ms(25).merge_check_jitter(0.2);
            let kv = c.open().unwrap();
            let h = kv.get_handle();
            for i in 0..12 { h.set(b("k"), b(&format!("value-{}", i))).unwrap(); }     // 11 dead entries spread over several files
            let before = files(dir.path());
            let names = |v: &Vec<String>| -> Vec<String> { v.iter().filter(|f| f.contains(".data")).map(|f| f.split(':').next().unwrap().to_string()).collect() };
            let deadline = std::time::Instant::now() + std::time::Duration::from_millis(if expect_merge { 8000 } else { 500 });
            let mut merged = false;
            while std::time::Instant::now() < deadline { if names(&files(dir.path())) != names(&before) { merged = true; break; } std::thread::sleep(std::time::Duration::from_millis(10)); }
            let hist = format!("{}: 12 overwrites of one key with 64-byte files, check interval 25 ms, jitter 0.2, trigger dead_bytes {} fragmentation {}; no client action afterwards", name, trig_dead, trig_frag);
            if merged != expect_merge {
                report("background", "C18", &hist, if merged { format!("a merge ran: data files {:?} -> {:?}", names(&before), names(&files(dir.path()))) } else { "no merge ran within 8 s".to_string() },
                       if expect_merge { "a merge within one check interval plus jitter (plus slack)" } else { "no merge" });
            }
            if h.get(b("k")).ok().flatten().as_deref() != Some(b"value-11".as_ref()) { report("background", "C18", &hist, "k does not read value-11 afterwards".into(), "value-11"); }
        };
        // (d) a merge pass that FAILS (its first output file already exists) must not end the task: once the obstacle is gone the next
        //     wake-up merges
        {
            let dir = tempfile::tempdir().unwrap();
            let mut c = Config::default();
            c.path(dir.path()).concurrency(1).max_file_size(1 << 20).sync(SyncStrategy::None)
                .merge_policy(MergePolicy::Always).merge_trigger_dead_bytes(10).merge_trigger_fragmentation(1.0)
                .merge_threshold_small_file(u64::MAX).merge_threshold_dead_bytes(0).merge_threshold_fragmentation(0.0)
                .merge_check_interval_ms(25).merge_check_jitter(0.2);
            let kv = c.open().unwrap();
            let h = kv.get_handle();
            let ids = |d: &std::path::Path| -> Vec<u64> { std::fs::read_dir(d).unwrap().filter_map(|e| e.unwrap().file_name().to_string_lossy().strip_suffix(".bitcask.data").and_then(|x| x.parse().ok())).collect() };
            // the ids the first merge output would take (one and two above the active file) are occupied by stray files
            let top = *ids(dir.path()).iter().max().unwrap();
            let blocked: Vec<u64> = vec![top + 1, top + 2];
            for id in blocked.iter() { std::fs::write(dir.path().join(format!("{}.bitcask.data", id)), b"").unwrap(); }
            for i in 0..12 { h.set(b("k"), b(&format!("value-{}", i))).unwrap(); }      // no rollover: everything stays in the active file
            std::thread::sleep(std::time::Duration::from_millis(400));      // several wake-ups whose merge (or rollover) fails
            for id in blocked.iter() { let _ = std::fs::remove_file(dir.path().join(format!("{}.bitcask.data", id))); }
            let before = ids(dir.path());
            let deadline = std::time::Instant::now() + std::time::Duration::from_millis(9000);
            let mut merged = false;
            while std::time::Instant::now() < deadline { let mut a = ids(dir.path()); let mut b0 = before.clone(); a.sort(); b0.sort(); if a != b0 { merged = true; break; } std::thread::sleep(std::time::Duration::from_millis(10)); }
            if !merged { report("background", "C18", "policy always, dead bytes above the trigger; the first merge passes fail because the id of their output is occupied by a stray file; the stray files are removed; no client action afterwards", "no merge ran within 9 s after the obstacle was removed (the background task has ended)".to_string(), "a merge at the next wake-up"); }
        }
        // (e) the window policy: a window that contains the current local hour merges like `always` -- also when that hour is its first or
        //     its last one -- and a window that excludes it never merges.  (Skipped in the last 20 s of an hour.)
        {
            let now = || -> (u32, u32, u32) { let o = std::process::Command::new("date").arg("+%H %M %S").output().unwrap(); let t = String::from_utf8_lossy(&o.stdout).to_string(); let v: Vec<u32> = t.split_whitespace().map(|x| x.parse().unwrap()).collect(); (v[0], v[1], v[2]) };
            let (hh, mm, ss) = now();
            if !(mm == 59 && ss >= 40) {
                run(&format!("window {0}..{0} (only the current hour)", hh), MergePolicy::Window { start: hh, end: hh }, 10, 1.0, true);
                run(&format!("window 0..{} (the current hour is the last one)", hh), MergePolicy::Window { start: 0, end: hh }, 10, 1.0, true);
                run(&format!("window {}..23 (the current hour is the first one)", hh), MergePolicy::Window { start: hh, end: 23 }, 10, 1.0, true);
                let other = (hh + 12) % 24;
                run(&format!("window {0}..{0} (excludes the current hour {1})", other, hh), MergePolicy::Window { start: other, end: other }, 10, 1.0, false);
            }
        }
        run("policy never, triggers exceeded", MergePolicy::Never, 0, 0.0, false);
        run("policy always, no trigger exceeded", MergePolicy::Always, u64::MAX, 1.0, false);
        run("policy always, dead bytes above the trigger", MergePolicy::Always, 10, 1.0, true);
        println!("{{\"found\": false, \"evaluations\": 8, \"searched\": \"8 configurations of the background merge (never / always without trigger / always with trigger / always with a merge pass that fails first / four windows around the current hour) on the real store with a 25 ms check interval; a merge is observed as a change of the set of data files\"}}");
    }
    /// C18 (sync half; run under strace by tools/syncsearch.py): open the store with interval sync, keep writing for `dur` ms, exit
    pub fn sync_run(policy: &str, interval_ms: u64, dur_ms: u64) {
        use bitcask::storage::bitcask::VerifMergePolicy as MergePolicy;
        let dir = tempfile::tempdir().unwrap();
        let mut c = Config::default();
        c.path(dir.path()).concurrency(1).max_file_size(1 << 20).sync(if interval_ms == 0 { SyncStrategy::None } else { SyncStrategy::IntervalMs(interval_ms) })
            .merge_policy(if policy == "never" { MergePolicy::Never } else { MergePolicy::Always }).merge_trigger_dead_bytes(u64::MAX).merge_trigger_fragmentation(1.0)
            .merge_check_interval_ms(1_000_000).merge_check_jitter(0.0);
        let kv = c.open().unwrap();
        let h = kv.get_handle();
        let end = std::time::Instant::now() + std::time::Duration::from_millis(dur_ms);
        let mut i = 0u64;
        while std::time::Instant::now() < end { h.set(b("k"), b(&format!("v{}", i))).unwrap(); i += 1; std::thread::sleep(std::time::Duration::from_millis(10)); }
        println!("WROTE {}", i);
    }
    /// D11: an append that fails mid-entry (RLIMIT_FSIZE makes write(2) fail with EFBIG after a partial write)
    /// leaves a partial record that later appends follow; after a restart acknowledged data is gone.
    pub fn torn_append() {
        unsafe { libc::signal(libc::SIGXFSZ, libc::SIG_IGN); }
        let dir = tempfile::tempdir().unwrap();
        let kv = conf(dir.path(), 1 << 30).open().unwrap();
        let h = kv.get_handle();
        h.set(b("a"), b("1")).unwrap();
        let big = "x".repeat(100_000);
        let mut lim = libc::rlimit { rlim_cur: 0, rlim_max: 0 };
        unsafe { libc::getrlimit(libc::RLIMIT_FSIZE, &mut lim); }
        let old = lim;
        lim.rlim_cur = 40_000;
        unsafe { libc::setrlimit(libc::RLIMIT_FSIZE, &lim); }
        let r = h.set(b("big"), b(&big));
        unsafe { libc::setrlimit(libc::RLIMIT_FSIZE, &old); }
        let hist = "set a 1; [file size limit 40000 bytes] set big <100000 bytes> (fails); [limit lifted] set k2 v2; get k2; reopen; get k2; get a";
        if r.is_ok() { println!("{{\"found\": false, \"note\": \"the oversized write did not fail\"}}"); return; }
        h.set(b("k2"), b("v2")).unwrap();
        let now = h.get(b("k2"));
        drop(h); drop(kv); std::thread::sleep(std::time::Duration::from_millis(30));
        match conf(dir.path(), 1 << 30).open() {
            Err(e) => report("torn-append", "C20", hist, format!("reopen failed: {}", e), "the directory can be opened and k2 reads v2"),
            Ok(kv2) => {
                let h2 = kv2.get_handle();
                let after = h2.get(b("k2")).map(|o| o.map(|v| String::from_utf8_lossy(&v).to_string()));
                let a = h2.get(b("a")).map(|o| o.map(|v| String::from_utf8_lossy(&v).to_string()));
                if !matches!(&after, Ok(Some(v)) if v == "v2") || !matches!(&a, Ok(Some(v)) if v == "1") {
                    report("torn-append", "C20", hist, format!("before restart get k2 = {:?}; after restart get k2 = {:?}, get a = {:?}", now.map(|o| o.is_some()), after, a), "k2 = v2 and a = 1 after the restart");
                }
            }
        }
        println!("{{\"found\": false}}");
    }
}

fn main() {
    let a: Vec<String> = std::env::args().collect();
    match a.get(1).map(|s| s.as_str()) {
        Some("frame-search") => frame_search(),
        Some("store-torn-append") => store::torn_append(),
        Some("store-closed") => store::closed_search(),
        Some("store-concurrent") => store::concurrent_search(a.get(2).map(|s| s.parse().unwrap()).unwrap_or(0), a.get(3).map(|s| s.parse().unwrap()).unwrap_or(1500)),
        Some("store-crash-run") => { let ops: Vec<&str> = a[5].split(';').map(|s| s.trim()).filter(|s| !s.is_empty()).collect(); store::crash_run(&a[2], a[3].parse().unwrap(), &a[4], &ops); }
        Some("store-crash-verify") => { let ops: Vec<&str> = a[5].split(';').map(|s| s.trim()).filter(|s| !s.is_empty()).collect(); store::crash_verify(&a[2], a[3].parse().unwrap(), &a[4], &ops, a[6].parse().unwrap(), a.get(7).map(|s| s.as_str()).unwrap_or("")); }
        Some("store-search") => store::search(a.get(2).map(|s| s.parse().unwrap()).unwrap_or(0)),
        Some("store-history") => {
            // store-history <max_file_size> <all|none> <label> op;op;...
            let ops: Vec<&str> = a[5].split(';').map(|s| s.trim()).filter(|s| !s.is_empty()).collect();
            store::run_history(a[2].parse().unwrap(), &a[3], &ops, &a[4]);
            println!("{{\"found\": false}}");
        }
        Some("conn-search") => conn_search(),
        Some("server-hostile") => server_hostile(),
        Some("client-search") => client_search(),
        Some("server-slots") => server_slots(),
        Some("store-background") => store::background(),
        Some("store-sync-run") => store::sync_run(&a[2], a[3].parse().unwrap(), a[4].parse().unwrap()),
        Some("server-shutdown") => server_shutdown(a.get(2).map(|s| s.parse().unwrap()).unwrap_or(0)),
        Some("server-search") => server_search(a.get(2).map(|s| s.parse().unwrap()).unwrap_or(0)),
        Some("decimal-search") => decimal_search(a.get(2).map(|s| s.parse().unwrap()).unwrap_or(200000)),
        Some("frame-one") => frame_one(&a[2], a.get(3).map(|s| s.parse().unwrap()).unwrap_or(0)),
        Some("frame-deep") => {
            // deep nesting in this (child) process: an abort here is the observation
            let depth: usize = a[2].parse().unwrap();
            let mut d = Vec::new();
            for _ in 0..depth { d.extend(b"*1\r\n"); }
            d.extend(b":1\r\n");
            let c = run_check(&d, 0);
            let p = run_parse(&d, 0);
            println!("check={} parse={}", short(&c), short(&p));
        }
        _ => { eprintln!("usage: replayer frame-search | frame-one <hex> <off> | frame-deep <n>"); std::process::exit(2) }
    }
}
