//! Witness search / replay against the *real* crate built from the working tree.
//! Used only after Verus has reported a failed obligation, to attach a concrete failing input.
//!   replayer frame-search            bounded search for a C07 / C08 counterexample (parser level)
//!   replayer frame-one <hex> <off>   run check+parse on one input (child process: survives aborts)
use std::io::Cursor;
use std::panic;

use bitcask::net::frame::{Error, Frame};

fn hex(b: &[u8]) -> String { b.iter().map(|x| format!("{:02x}", x)).collect() }
fn unhex(s: &str) -> Vec<u8> { (0..s.len() / 2).map(|i| u8::from_str_radix(&s[2 * i..2 * i + 2], 16).unwrap()).collect() }

#[derive(Debug)]
enum Out { Frame(Frame, usize), Incomplete, Err(String), Panic(String) }

fn run_parse(d: &[u8], off: usize) -> Out {
    let r = panic::catch_unwind(|| {
        let mut c = Cursor::new(d);
        c.set_position(off as u64);
        let r = Frame::parse(&mut c);
        (r, c.position() as usize)
    });
    match r {
        Ok((Ok(f), p)) => Out::Frame(f, p - off),
        Ok((Err(Error::Incomplete), _)) => Out::Incomplete,
        Ok((Err(e), _)) => Out::Err(format!("{:?}", e)),
        Err(p) => Out::Panic(p.downcast_ref::<String>().cloned().or_else(|| p.downcast_ref::<&str>().map(|s| s.to_string())).unwrap_or_default()),
    }
}
fn run_check(d: &[u8], off: usize) -> Out {
    let r = panic::catch_unwind(|| {
        let mut c = Cursor::new(d);
        c.set_position(off as u64);
        let r = Frame::check(&mut c);
        (r, c.position() as usize)
    });
    match r {
        Ok((Ok(()), p)) => Out::Frame(Frame::Null, p - off),
        Ok((Err(Error::Incomplete), _)) => Out::Incomplete,
        Ok((Err(e), _)) => Out::Err(format!("{:?}", e)),
        Err(p) => Out::Panic(p.downcast_ref::<String>().cloned().or_else(|| p.downcast_ref::<&str>().map(|s| s.to_string())).unwrap_or_default()),
    }
}

/// independent reading of a frame starting at `off`: Some((frame, len)) only where the text is
/// unambiguous ([+-]?digits for numbers); used to cross-check values the parser accepted.
fn int_text_value(t: &[u8]) -> Option<i128> {
    let (neg, body) = match t.first() { Some(b'-') => (true, &t[1..]), Some(b'+') => (false, &t[1..]), _ => (false, t) };
    if body.is_empty() || !body.iter().all(|b| b.is_ascii_digit()) || body.len() > 30 { return None; }
    let mut v: i128 = 0;
    for b in body { v = v * 10 + (*b - b'0') as i128; }
    Some(if neg { -v } else { v })
}

fn report(kind: &str, d: &[u8], off: usize, observed: String, expected: &str) -> ! {
    println!("{{\"found\": true, \"kind\": \"{}\", \"input_hex\": \"{}\", \"offset\": {}, \"observed\": {:?}, \"expected\": {:?}}}",
             kind, hex(d), off, observed, expected);
    std::process::exit(0)
}

/// all oracle checks of C07 (and the parser half of C08) on one input
fn judge(d: &[u8], off: usize) {
    let p = run_parse(d, off);
    let c = run_check(d, off);
    if let Out::Panic(m) = &p { report("parse-panic", d, off, m.clone(), "a frame, Incomplete or an error"); }
    if let Out::Panic(m) = &c { report("check-panic", d, off, m.clone(), "Ok, Incomplete or an error"); }
    if let (Out::Frame(_, n), Out::Frame(_, m)) = (&c, &p) {
        if n != m { report("length-disagreement", d, off, format!("check accepted {} bytes, parse consumed {}", n, m), "equal lengths"); }
    }
    if let Out::Frame(f, n) = &p { value_check(d, off, f, *n); }
}

fn value_check(d: &[u8], off: usize, f: &Frame, n: usize) {
    // every number the parser accepted must have exactly the value written
    let line_end = |s: usize| (s..d.len()).find(|&i| d[i] == b'\r');
    match f {
        Frame::Integer(v) => {
            let e = line_end(off + 1).unwrap_or(d.len());
            match int_text_value(&d[off + 1..e]) {
                Some(x) if x == *v as i128 => {}
                other => report("integer-value", d, off, format!("parsed {} from {:?}", v, String::from_utf8_lossy(&d[off + 1..e])), &format!("{:?}", other)),
            }
        }
        Frame::BulkString(b) => {
            let e = line_end(off + 1).unwrap_or(d.len());
            match int_text_value(&d[off + 1..e]) {
                Some(x) if x == b.len() as i128 && e + 2 + b.len() + 2 == off + n && &d[e + 2..e + 2 + b.len()] == &b[..] => {}
                other => report("bulk-length", d, off, format!("bulk of {} bytes, consumed {}", b.len(), n), &format!("{:?}", other)),
            }
        }
        Frame::Array(items) => {
            let e = line_end(off + 1).unwrap_or(d.len());
            match int_text_value(&d[off + 1..e]) {
                Some(x) if x == items.len() as i128 => {}
                other => report("array-length", d, off, format!("array of {} items", items.len()), &format!("{:?}", other)),
            }
        }
        _ => {}
    }
}

fn enc(f: &Frame, out: &mut Vec<u8>) {
    match f {
        Frame::SimpleString(s) => { out.push(b'+'); out.extend(s.as_bytes()); out.extend(b"\r\n"); }
        Frame::Error(s) => { out.push(b'-'); out.extend(s.as_bytes()); out.extend(b"\r\n"); }
        Frame::Integer(i) => { out.push(b':'); out.extend(i.to_string().as_bytes()); out.extend(b"\r\n"); }
        Frame::BulkString(b) => { out.push(b'$'); out.extend(b.len().to_string().as_bytes()); out.extend(b"\r\n"); out.extend(&b[..]); out.extend(b"\r\n"); }
        Frame::Null => out.extend(b"$-1\r\n"),
        Frame::Array(xs) => { out.push(b'*'); out.extend(xs.len().to_string().as_bytes()); out.extend(b"\r\n"); for x in xs { enc(x, out); } }
    }
}

fn roundtrip(f: Frame, pad: usize) {
    let mut d = vec![b'x'; pad];
    enc(&f, &mut d);
    let n = d.len() - pad;
    match run_parse(&d, pad) {
        Out::Frame(g, m) if g == f && m == n => {}
        o => report("roundtrip", &d, pad, format!("{:?}", o), "the encoded frame, whole length"),
    }
    match run_check(&d, pad) {
        Out::Frame(_, m) if m == n => {}
        o => report("roundtrip-check", &d, pad, format!("{:?}", o), "Ok, whole length"),
    }
    for k in 0..n {
        let t = &d[..pad + k];
        match run_parse(t, pad) { Out::Incomplete => {}, o => report("prefix-parse", t, pad, format!("{:?}", o), "Incomplete") }
        match run_check(t, pad) { Out::Incomplete => {}, o => report("prefix-check", t, pad, format!("{:?}", o), "Incomplete") }
    }
}

fn frame_search() {
    panic::set_hook(Box::new(|_| {}));
    // 1. curated seeds: boundary numbers at many offsets, absurd lengths, truncated signs
    let nums: Vec<String> = vec![
        "0", "-0", "+0", "7", "-7", "18", "9223372036854775807", "9223372036854775808", "-9223372036854775808",
        "-9223372036854775809", "99999999999999999999", "-99999999999999999999", "18446744073709551616",
        "18446744073709551617", "36893488147419103233", "000000000000000000005", "123456789012345678",
        "1234567890123456789", "12345678901234567890", "-", "+", "", "1a", "--1",
    ].into_iter().map(String::from).collect();
    for pad in [0usize, 1, 2, 5, 16, 17, 18, 19, 20, 31, 40, 100] {
        for n in &nums {
            for ty in [b':', b'$', b'*'] {
                for tail in ["\r\n", "\r", "", "\r\nabc\r\n", "\r\n:1\r\n"] {
                    let mut d = vec![b'x'; pad];
                    d.push(ty);
                    d.extend(n.as_bytes());
                    d.extend(tail.as_bytes());
                    judge(&d, pad);
                }
            }
        }
    }
    // 2. exhaustive small strings over the protocol alphabet
    let alpha = b"+-:$*019\r\nx";
    for len in 0..=6usize {
        let mut idx = vec![0usize; len];
        loop {
            let d: Vec<u8> = idx.iter().map(|&i| alpha[i]).collect();
            judge(&d, 0);
            if len > 0 { let mut e = vec![b'*', b'2', b'\r', b'\n', b':', b'1', b'\r', b'\n']; let off = e.len(); e.extend(&d); judge(&e, off); }
            let mut k = 0;
            while k < len { idx[k] += 1; if idx[k] < alpha.len() { break; } idx[k] = 0; k += 1; }
            if k == len { break; }
        }
    }
    // 3. round trips and strict prefixes (C08, parser half)
    let b = |s: &[u8]| Frame::BulkString(bytes::Bytes::copy_from_slice(s));
    let frames = || vec![
        Frame::SimpleString("OK".into()), Frame::SimpleString("".into()), Frame::Error("ERR x".into()),
        Frame::Integer(0), Frame::Integer(-1), Frame::Integer(i64::MAX), Frame::Integer(i64::MIN), Frame::Integer(1234567890123456789),
        b(b""), b(b"a"), b(b"\r\n\0x"), b(&[7u8; 300]), Frame::Null,
        Frame::Array(vec![]), Frame::Array(vec![b(b"GET"), b(b"k")]), Frame::Array(vec![Frame::Integer(5), Frame::Null, Frame::SimpleString("s".into())]),
    ];
    for pad in [0usize, 1, 17, 18, 19, 25] { for f in frames() { roundtrip(f, pad); } }
    println!("{{\"found\": false, \"searched\": \"curated numbers x offsets, all strings over an 11-byte alphabet up to length 6 (bare and after an array prefix), round trips and all strict prefixes of 16 frames at 6 offsets\"}}");
}

fn frame_one(h: &str, off: usize) {
    let d = unhex(h);
    let p = run_parse(&d, off);
    let c = run_check(&d, off);
    println!("parse={:?} check={:?}", short(&p), short(&c));
}
fn short(o: &Out) -> String { let s = format!("{:?}", o); if s.len() > 200 { s[..200].to_string() } else { s } }

/// connection level (C08): write frames with the real Connection, deliver the bytes in chunks of a given
/// size through an in-memory pipe, read them back with the real Connection.
fn conn_search() {
    use bitcask::net::connection::Connection;
    use tokio::io::AsyncWriteExt;
    let rt = tokio::runtime::Builder::new_current_thread().enable_all().build().unwrap();
    let b = |s: &[u8]| Frame::BulkString(bytes::Bytes::copy_from_slice(s));
    let frames = || vec![
        Frame::SimpleString("OK".into()), Frame::Error("ERR something".into()), Frame::Integer(0), Frame::Integer(-42),
        Frame::Integer(i64::MAX), Frame::Integer(i64::MIN), b(b""), b(b"hello"), b(b"\r\n\0\r\n"), b(&[9u8; 70]), Frame::Null,
        Frame::Array(vec![]), Frame::Array(vec![b(b"SET"), b(b"k"), b(b"v\r\nv")]), Frame::Array(vec![Frame::Integer(1), Frame::Null, Frame::SimpleString("x".into())]),
    ];
    rt.block_on(async {
        // encode with the real writer
        let mut wire = std::io::Cursor::new(Vec::new());
        let mut encs: Vec<Vec<u8>> = Vec::new();
        {
            let mut w = Connection::new(&mut wire);
            let mut last = 0usize;
            for f in frames() {
                w.write_frame(&f).await.unwrap();
                drop(w);
                let cur = wire.get_ref().len();
                encs.push(wire.get_ref()[last..cur].to_vec());
                last = cur;
                w = Connection::new(&mut wire);
                // Connection::new over &mut Cursor appends at the cursor position
            }
        }
        let all: Vec<u8> = wire.get_ref().clone();
        // each encoding parses back (writer vs independent encoder)
        for (f, e) in frames().into_iter().zip(encs.iter()) {
            let mut x = Vec::new();
            enc(&f, &mut x);
            if &x != e { report("writer-encoding", e, 0, format!("wrote {:?}", String::from_utf8_lossy(e)), &format!("{:?}", String::from_utf8_lossy(&x))); }
        }
        for chunk in [1usize, 2, 3, 5, 7, 64, 100000] {
            for cut in [all.len(), all.len() - 1, all.len() - 3, 1] {
                let data = all[..cut].to_vec();
                let (mut tx, rx) = tokio::io::duplex(1 << 20);
                let d2 = data.clone();
                let feeder = tokio::spawn(async move {
                    for c in d2.chunks(chunk) { tx.write_all(c).await.unwrap(); tx.flush().await.unwrap(); tokio::task::yield_now().await; }
                    drop(tx);
                });
                let mut r = Connection::new(rx);
                let mut got = Vec::new();
                let end = loop {
                    match r.read_frame().await { Ok(Some(f)) => got.push(f), Ok(None) => break Ok(()), Err(e) => break Err(format!("{:?}", e)) }
                };
                feeder.await.unwrap();
                let want = frames();
                let complete = cut == all.len();
                let nfull = { let mut n = 0; let mut acc = 0; for e in &encs { if acc + e.len() <= cut { acc += e.len(); n += 1; } else { break; } } n };
                if got.len() != nfull || got.iter().zip(want.iter()).any(|(a, b)| a != b) {
                    report("chunked-read", &data, 0, format!("chunk size {}: decoded {} frames: {:?}", chunk, got.len(), got.iter().take(3).collect::<Vec<_>>()), &format!("the first {} written frames", nfull));
                }
                let at_boundary = { let mut acc = 0; let mut ok = false; for e in &encs { acc += e.len(); if acc == cut { ok = true; } } ok };
                if (complete || at_boundary) && end.is_err() { report("clean-end", &data, 0, format!("chunk size {}: {:?}", chunk, end), "Ok(None) at end of stream"); }
                if !complete && !at_boundary && end.is_ok() { report("truncated-stream", &data, 0, format!("chunk size {}: clean end after {} frames", chunk, got.len()), "an error: the stream ended inside a frame"); }
            }
        }
    });
    println!("{{\"found\": false, \"searched\": \"14 frames written by the real Connection and read back through a pipe in chunks of 1,2,3,5,7,64 bytes and all at once; stream complete and cut at 3 places\"}}");
}

fn main() {
    let a: Vec<String> = std::env::args().collect();
    match a.get(1).map(|s| s.as_str()) {
        Some("frame-search") => frame_search(),
        Some("conn-search") => conn_search(),
        Some("frame-one") => frame_one(&a[2], a.get(3).map(|s| s.parse().unwrap()).unwrap_or(0)),
        Some("frame-deep") => {
            // deep nesting in this (child) process: an abort here is the observation
            let depth: usize = a[2].parse().unwrap();
            let mut d = Vec::new();
            for _ in 0..depth { d.extend(b"*1\r\n"); }
            d.extend(b":1\r\n");
            let c = run_check(&d, 0);
            let p = run_parse(&d, 0);
            println!("check={} parse={}", short(&c), short(&p));
        }
        _ => { eprintln!("usage: replayer frame-search | frame-one <hex> <off> | frame-deep <n>"); std::process::exit(2) }
    }
}
